"""R2: independent client-side parser of a server->client byte stream
(RFC 9112 section 6 message framing).  Written from the RFC, not from waitress.
"""
import re

STATUS_LINE = re.compile(rb"\AHTTP/(1\.[01]) ([0-9]{3}) ([^\r\n]*)\Z")
TOKEN = re.compile(rb"\A[!#$%&'*+\-.^_`|~0-9A-Za-z]+\Z")
HEXSIZE = re.compile(rb"\A[0-9A-Fa-f]+\Z")
DIGITS = re.compile(rb"\A[0-9]+\Z")


class Response:
    __slots__ = ("version", "status", "reason", "headers", "head_lines", "body", "framing",
                 "start", "head_end", "end", "complete", "interim", "req_index",
                 "close_announced", "keepalive_announced", "problems", "raw_head")

    def __init__(self):
        self.headers = []
        self.head_lines = []
        self.body = b""
        self.framing = None
        self.complete = False
        self.interim = False
        self.req_index = None
        self.close_announced = False
        self.keepalive_announced = False
        self.problems = []

    def get(self, name, default=None):
        name = name.lower()
        for k, v in self.headers:
            if k.lower() == name:
                return v
        return default

    def get_all(self, name):
        name = name.lower()
        return [v for k, v in self.headers if k.lower() == name]

    def summary(self):
        return {
            "status": self.status, "framing": self.framing, "len": len(self.body),
            "complete": self.complete, "close": self.close_announced,
            "problems": list(self.problems),
        }


def parse_stream(wire, methods, eof):
    """wire: bytes sent by the server on one connection; methods: request
    methods in the order sent (for HEAD); eof: whether the server closed.
    Returns (responses, problems) - problems are stream-level findings:
      ("truncated_head", off) ("truncated_body", idx) ("leftover", off)
      ("bad_head", off, why) ("unsolicited", idx)
    """
    wire = bytes(wire)
    out = []
    problems = []
    pos = 0
    req_i = 0
    n = len(wire)
    while pos < n:
        idx = wire.find(b"\r\n\r\n", pos)
        if idx < 0:
            problems.append(("truncated_head", pos))
            break
        r = Response()
        r.start = pos
        head = wire[pos:idx]
        r.raw_head = head
        lines = head.split(b"\r\n")
        m = STATUS_LINE.match(lines[0])
        if not m:
            problems.append(("bad_head", pos, "status-line"))
            r.problems.append("status-line")
            r.status = None
            out.append(r)
            break
        r.version = m.group(1).decode()
        r.status = int(m.group(2))
        r.reason = m.group(3)
        r.head_lines = lines[1:]
        for ln in lines[1:]:
            if b"\r" in ln or b"\n" in ln:
                r.problems.append("bare-crlf-in-head")
            name, sep, val = ln.partition(b":")
            if not sep or not TOKEN.match(name):
                r.problems.append("bad-header-line")
                continue
            r.headers.append((name.decode("latin-1"), val.strip(b" \t").decode("latin-1")))
        r.head_end = idx + 4
        pos = idx + 4
        conn = [t.strip().lower() for v in r.get_all("connection") for t in v.split(",")]
        r.close_announced = "close" in conn
        r.keepalive_announced = "keep-alive" in conn
        if 100 <= r.status < 200:
            r.interim = True
            r.complete = True
            r.framing = "none"
            r.end = pos
            out.append(r)
            continue
        r.req_index = req_i
        method = methods[req_i] if req_i < len(methods) else None
        if method is None:
            problems.append(("unsolicited", len(out)))
        req_i += 1
        te = [t.strip().lower() for v in r.get_all("transfer-encoding") for t in v.split(",")]
        cls = r.get_all("content-length")
        if method == "HEAD" or r.status in (204, 304):
            r.framing = "none"
            r.complete = True
            r.end = pos
        elif te:
            if te[-1] != "chunked" or r.version != "1.1":
                r.problems.append("bad-transfer-encoding")
            r.framing = "chunked"
            body = bytearray()
            ok = False
            p = pos
            while True:
                e = wire.find(b"\r\n", p)
                if e < 0:
                    break
                line = wire[p:e]
                size_s = line.split(b";", 1)[0]
                if not HEXSIZE.match(size_s):
                    r.problems.append("bad-chunk-size")
                    break
                size = int(size_s, 16)
                p = e + 2
                if size == 0:
                    # trailer section
                    while True:
                        e2 = wire.find(b"\r\n", p)
                        if e2 < 0:
                            p = None
                            break
                        if e2 == p:
                            p = e2 + 2
                            ok = True
                            break
                        p = e2 + 2
                    break
                if p + size + 2 > n:
                    body += wire[p:min(n, p + size)]
                    p = None
                    break
                body += wire[p:p + size]
                if wire[p + size:p + size + 2] != b"\r\n":
                    r.problems.append("bad-chunk-terminator")
                    p = None
                    break
                p += size + 2
            r.body = bytes(body)
            if ok:
                r.complete = True
                r.end = p
                pos = p
            else:
                r.end = n
                pos = n
                if "bad-chunk-size" not in r.problems and "bad-chunk-terminator" not in r.problems:
                    problems.append(("truncated_body", len(out)))
                else:
                    problems.append(("bad_body", len(out)))
        elif cls:
            r.framing = "cl"
            if len(set(cls)) != 1 or not DIGITS.match(cls[0].encode("latin-1")):
                r.problems.append("bad-content-length")
                r.end = n
                pos = n
                problems.append(("bad_body", len(out)))
            else:
                cl = int(cls[0])
                r.body = wire[pos:pos + cl]
                if len(r.body) == cl:
                    r.complete = True
                    r.end = pos + cl
                    pos += cl
                else:
                    r.end = n
                    pos = n
                    problems.append(("truncated_body", len(out)))
        else:
            r.framing = "close"
            r.body = wire[pos:]
            r.end = n
            pos = n
            r.complete = bool(eof)
            if not eof:
                problems.append(("unterminated_close_delimited", len(out)))
        out.append(r)
    return out, problems
