"""R1: strict reference parser for an HTTP/1.x request stream (RFC 9112 / 9110),
written from the RFCs and the property text, not from waitress.

parse_message(buf, pos) returns
  ("ok", msg, newpos)   msg = dict(method, target, version, fields=[(name, value)], body, framing,
                                   chunk_ext, trailers)
  ("bad", reason)       the bytes at pos are not a canonical message
  ("more",)             the stream ends inside the message
It accepts only canonical messages: everything RFC-legal-but-unusual is "bad"
here, and the caller's verdict table says whether that means REJECT or EITHER.
"""
import re

TCHAR = rb"!#$%&'*+\-.^_`|~0-9A-Za-z"
TOKEN_RE = re.compile(rb"\A[" + TCHAR + rb"]+\Z")
METHOD_RE = re.compile(rb"\A[!#$%&'*+\-.^_`|~0-9A-Z]+\Z")
VALUE_RE = re.compile(rb"\A[\x21-\x7e\x80-\xff](?:[ \t\x21-\x7e\x80-\xff]*[\x21-\x7e\x80-\xff])?\Z")
TARGET_RE = re.compile(rb"\A[\x21-\x7e]+\Z")
DIGITS_RE = re.compile(rb"\A[0-9]+\Z")
HEX_RE = re.compile(rb"\A[0-9A-Fa-f]+\Z")
QSTR = rb'"(?:[\t \x21\x23-\x5b\x5d-\x7e\x80-\xff]|\\[\t \x21-\x7e\x80-\xff])*"'
EXT_RE = re.compile(rb"\A(?:;[" + TCHAR + rb"]+(?:=(?:[" + TCHAR + rb"]+|" + QSTR + rb"))?)*\Z")


def parse_message(buf, pos=0):
    n = len(buf)
    e = buf.find(b"\r\n", pos)
    if e < 0:
        return ("more",)
    line = buf[pos:e]
    parts = line.split(b" ")
    if len(parts) != 3:
        return ("bad", "request-line")
    method, target, ver = parts
    if not METHOD_RE.match(method) or not TARGET_RE.match(target):
        return ("bad", "request-line")
    if ver not in (b"HTTP/1.1", b"HTTP/1.0"):
        return ("bad", "version")
    version = ver[5:].decode()
    p = e + 2
    fields = []
    while True:
        e = buf.find(b"\r\n", p)
        if e < 0:
            return ("more",)
        line = buf[p:e]
        p = e + 2
        if line == b"":
            break
        if b"\r" in line or b"\n" in line:
            return ("bad", "bare-cr-lf")
        name, sep, val = line.partition(b":")
        if not sep or not TOKEN_RE.match(name):
            return ("bad", "field-name")
        val = val.strip(b" \t")
        if val and not VALUE_RE.match(val):
            return ("bad", "field-value")
        fields.append((name, val))
    # a later bare LF / CR inside what we took for lines
    lower = [(k.lower(), v) for k, v in fields]
    te = [v for k, v in lower if k == b"transfer-encoding"]
    cl = [v for k, v in lower if k == b"content-length"]
    msg = {"method": method, "target": target, "version": version, "fields": fields,
           "body": b"", "framing": "none", "chunk_ext": [], "trailers": []}
    if te:
        if version != "1.1":
            return ("bad", "te-on-non-1.1")
        if len(te) != 1 or te[0].strip(b" \t").lower() != b"chunked":
            return ("bad", "transfer-coding")
        if cl:
            return ("bad", "cl+te")
        msg["framing"] = "chunked"
        body = bytearray()
        while True:
            e = buf.find(b"\r\n", p)
            if e < 0:
                return ("more",)
            line = buf[p:e]
            semi = line.find(b";")
            size_s, ext = (line, b"") if semi < 0 else (line[:semi], line[semi:])
            if not HEX_RE.match(size_s):
                return ("bad", "chunk-size")
            if not EXT_RE.match(ext):
                return ("bad", "chunk-ext")
            if b"\n" in line or b"\r" in line:
                return ("bad", "chunk-line")
            msg["chunk_ext"].append(ext)
            size = int(size_s, 16)
            p = e + 2
            if size == 0:
                break
            if p + size + 2 > n:
                return ("more",)
            body += buf[p:p + size]
            if buf[p + size:p + size + 2] != b"\r\n":
                return ("bad", "chunk-terminator")
            p += size + 2
        # trailer section
        while True:
            e = buf.find(b"\r\n", p)
            if e < 0:
                return ("more",)
            line = buf[p:e]
            p = e + 2
            if line == b"":
                break
            if b"\r" in line or b"\n" in line:
                return ("bad", "trailer")
            name, sep, val = line.partition(b":")
            if not sep or not TOKEN_RE.match(name):
                return ("bad", "trailer")
            val = val.strip(b" \t")
            if val and not VALUE_RE.match(val):
                return ("bad", "trailer")
            msg["trailers"].append((name, val))
        msg["body"] = bytes(body)
    elif cl:
        if len(cl) != 1 or not DIGITS_RE.match(cl[0]):
            return ("bad", "content-length")
        if len(cl[0]) > 18:
            return ("bad", "content-length-huge")
        k = int(cl[0])
        if p + k > n:
            return ("more",)
        msg["framing"] = "cl"
        msg["body"] = buf[p:p + k]
        p += k
    return ("ok", msg, p)


def cgi_fields(fields):
    """the header fields an application must see: CGI-style name -> joined value;
    names containing '_' are dropped; Transfer-Encoding never delivered."""
    out = {}
    for name, val in fields:
        if b"_" in name:
            continue
        key = name.upper().replace(b"-", b"_").decode("latin-1")
        v = val.decode("latin-1")
        if key in out:
            out[key] = out[key] + ", " + v
        else:
            out[key] = v
    out.pop("TRANSFER_ENCODING", None)
    return out


def must_close(msg):
    conn = None
    for name, val in msg["fields"]:
        if name.lower() == b"connection":
            conn = val.strip(b" \t").lower()
    if msg["version"] == "1.1":
        return conn == b"close"
    return conn != b"keep-alive"
