import json
claimed = json.load(open('/verif/manifest_src.json'))
checks = []
for c in claimed["checks"]:
    pid = c["id"]
    checks.append({
        "property_id": pid,
        "quick_cmd": "./check %s --tier quick" % pid,
        "thorough_cmd": "./check %s --tier thorough" % pid,
        "evidence_file": "evidence/%s.json" % pid,
        "replay_cmd_template": "./check %s --replay {path}" % pid,
        "engine": "waitress-dst",
        "level_claimed": {"category": c["level"], "text": c["text"], "design_ref": c.get("ref", "DESIGN.md section 9")},
        "level_note": c["note"],
        "technique": c["technique"],
    })
m = {
    "version": 1,
    "setup_cmd": "/venv/bin/python -c \"import sys; sys.path.insert(0,'/repo/src'); sys.path.insert(0,'/verif'); import waitress, sim.kernel, sim.shims, sim.harness, sim.runner\"",
    "hooks": {
        "guard": "WAITRESS_VERIF_SIM",
        "enable": "no source hook was needed: the simulator patches module attributes (threading/time/select/os) of the waitress modules from outside and builds the server through its documented test shims (_sock=, map=, dispatcher=); /repo/src is put first on sys.path so checks always run the current working tree",
        "baseline_off_cmd": "cd /repo && /venv/bin/python -m pytest -ra -q -p no:cacheprovider --timeout=900 --continue-on-collection-errors",
        "source_commits": [],
        "add_only": True,
    },
    "engines": [{
        "name": "waitress-dst", "path": "sim/",
        "serves_properties": [c["property_id"] for c in checks],
        "kind_free_text": "deterministic simulation: real waitress code on baton-passing threads, simulated clock, fake sockets/pipe/select, seeded scheduler and fault injection, tape-based replay and shrinking",
    }],
    "checks": checks,
    "not_applicable": claimed["not_applicable"],
    "notes": claimed.get("notes", ""),
}
json.dump(m, open('/verif/MANIFEST.json', 'w'), indent=1)
import jsonschema
jsonschema.validate(m, json.load(open('/root/.vp/MANIFEST.schema.json')))
print("manifest ok", len(checks))
