"""C07 - the WSGI environ is the exact PEP 3333 image of the request."""
from urllib.parse import unquote_to_bytes

from sim.harness import Simulation
from sim.shims import NetConfig
from sim.runner import RunResult
from models import r1_request
from . import common, reqgen, c01
from .common import ScriptedApp

PROPERTY = "C07"
LEVEL = "exploration"
BUDGET = {"quick": 30, "thorough": 600}
EVIDENCE = {
    "rule": "one canonically well-formed request per run (token field names incl. dash/underscore alias pairs and names that "
            "map onto CGI variables, repeated fields, obs-text values, origin/absolute/asterisk/authority targets with "
            "percent-escapes incl. invalid ones, no body / Content-Length / chunked bodies on both sides of inbuf_overflow) x "
            "url_prefix x url_scheme x server_name x TCP or unix listener; reference model R3 (PEP 3333 + waitress's documented "
            "choices); distinct = distinct history digest; non-trivial = the request has >= 2 extra fields or a body",
    "real": common.REAL, "stub": common.STUB,
    "assumptions": [
        "R3 includes waitress's documented choices: leading slashes collapsed, SCRIPT_NAME is always url_prefix, underscore names dropped, fragment stripped",
        "PATH_INFO / QUERY_STRING are compared for origin-form and absolute-form targets only (PEP 3333 is silent on asterisk and authority forms)",
        "REMOTE_PORT, SERVER_PORT, SERVER_SOFTWARE, REQUEST_URI, wsgi.* and waitress.* keys are not compared",
    ],
}
PREFIXES = ["", "/app", "/m0", "/a/b", "/m", "/m0/a", "/M0"]  # incl. prefixes that share leading characters with the path only
CGI_SHADOW = [b"Remote-Addr", b"Server-Name", b"Server-Port", b"Request-Method", b"Path-Info", b"Script-Name",
              b"Query-String", b"Server-Protocol", b"Remote-Host", b"Http-Host", b"Wsgi.Input", b"Content-Length-X"]


def gen(W):
    sc = {}
    # (330000 with inbuf_overflow 270000: the body spills to a file after more than one 256 KiB copy block)
    m = reqgen.gen_message(W, 0, {"big_body": W.choice([2000, 9000, 30000, 330000])})
    # extra field material
    extra = []
    for _ in range(W.draw(5)):
        nm = W.choice(CGI_SHADOW + [b"X-Foo", b"X_Foo", b"x-foo", b"X-Foo-Bar", b"X_Foo-Bar", b"Accept", b"ACCEPT", b"accept",
                                    b"X-Forwarded-For", b"X-Forwarded-Host", b"X-Forwarded-Proto", b"Forwarded"])
        extra.append((nm, W.choice(reqgen.FIELD_VALUES)))
    if W.chance(0.15):
        # an obs-folded field (continuation lines start with SP / HTAB): it is one field; with an underscore in
        # its name the whole of it is dropped, continuation lines included
        nm = W.choice([b"X-Fold", b"X_Note", b"X_Foo", b"X-Foo"])
        extra.insert(W.draw(len(extra) + 1), (nm, W.choice([b"p\r\n q", b"x\r\n\t, admin", b"a\r\n b\r\n\tc"])))
        # (line folding is obsolete: a server may refuse it; if it accepts, the environ must show the unfolded field)
        m["mutation"] = "obs_fold"
        m["verdict"] = ("EITHER", {"must_close": None, "dontcare": set()})
    m["fields"][1:1] = extra
    m["target"] = m["target"].replace(b"#c", b"")
    sc["msg"] = m
    sc["url_prefix"] = W.choice(PREFIXES)
    sc["url_scheme"] = W.choice(["http", "https"])
    sc["server_name"] = W.choice(["waitress.invalid", "example.org", "srv"])
    sc["unix"] = W.chance(0.25)
    sc["inbuf_overflow"] = W.choice([524288, 20000, 8193, 100, 10, 270000])
    sc["recv_bytes"] = W.choice([8192, 64, 5])
    if len(m["body"]) > 100000:
        sc["recv_bytes"] = 8192  # (tens of thousands of tiny reads would only exhaust the step bound)
    sc["cut"] = W.draw(500)
    # a second, plain request behind the first one: its environ must be its own
    sc["follower"] = W.chance(0.4)
    sc["cut2"] = W.draw(12)
    # a proxy is configured but this peer is not it, and clearing is off: every field still reaches the application
    sc["other_proxy"] = W.chance(0.3)
    return sc


def model(m, sc, peer):
    """R3: the environ PEP 3333 prescribes (plus waitress's documented choices)"""
    env = {}
    env["REQUEST_METHOD"] = m["method"].decode("latin-1").upper()
    env["SERVER_PROTOCOL"] = "HTTP/" + m["version"]
    env["wsgi.url_scheme"] = sc["url_scheme"]
    env["SERVER_NAME"] = sc["server_name"]
    env["REMOTE_ADDR"] = peer
    env["REMOTE_HOST"] = peer
    env["SCRIPT_NAME"] = sc["url_prefix"]
    tgt = m["target"]
    form = m["target_form"]
    if form in ("origin", "absolute"):
        if form == "absolute":
            rest = tgt.split(b"://", 1)[1]
            slash = rest.find(b"/")
            tgt = rest[slash:] if slash >= 0 else b""
        tgt = tgt.split(b"#", 1)[0]
        path, _, query = tgt.partition(b"?")
        path = unquote_to_bytes(path).decode("latin-1")
        if path.startswith("/"):
            path = "/" + path.lstrip("/")
        p = sc["url_prefix"]
        if p:
            if path == p:
                path = ""
            elif path.startswith(p + "/"):
                path = path[len(p):]
        env["PATH_INFO"] = path
        env["QUERY_STRING"] = query.decode("latin-1")
    # (an obs-folded value is unfolded by dropping the CRLF; the blanks that start the continuation line stay)
    fields = r1_request.cgi_fields([(k, v.replace(b"\r\n", b"").strip(b" \t")) for k, v in m["rendered_fields"] if k is not None])
    for k, v in fields.items():
        if k in ("CONTENT_LENGTH", "CONTENT_TYPE"):
            env[k] = v
        else:
            env["HTTP_" + k] = v
    if m["framing"] == "chunked":
        env["CONTENT_LENGTH"] = str(len(m["body"]))
    return env


def run_one(tapes, tier, scenario=None):
    if scenario is not None:
        sc = dict(scenario)
        sc["msg"] = c01.fix_types(c01.deser(scenario["msg"]))
    else:
        sc = gen(tapes.W)
    res = RunResult()
    try:
        m = reqgen.finalize(sc["msg"])
    except AssertionError as e:
        res.harness_error = str(e)
        res.digest = "selfcheck"
        res.stats = {"end": "selfcheck"}
        return res
    res.scenario = dict(sc)
    res.scenario["msg"] = c01.ser(sc["msg"])
    knobs = dict(threads=1, url_prefix=sc["url_prefix"], url_scheme=sc["url_scheme"], server_name=sc["server_name"],
                 inbuf_overflow=sc["inbuf_overflow"], recv_bytes=sc["recv_bytes"], clear_untrusted_proxy_headers=False)
    if sc["unix"]:
        knobs["unix_socket"] = "/tmp/sim-waitress.sock"
    if sc.get("other_proxy"):
        knobs.update(trusted_proxy="10.250.0.1", trusted_proxy_headers={"x-forwarded-for", "x-forwarded-host"},
                     trusted_proxy_count=1)
    sim = Simulation(tapes, knobs=knobs, net=NetConfig(), sched={"kind": "rtb"}, unix=sc["unix"], horizon=60.0)
    k = sim.k
    app = ScriptedApp(sim, {}, default={"chunks": [b"ok"], "cl": 2, "read_input": True, "keep_environ": True})
    sim.build(app)
    import hashlib as _h
    k.log("scenario", _h.sha256(repr(sorted(res.scenario.items(), key=str)).encode("utf-8", "backslashreplace")).hexdigest()[:16])
    raw = m["raw"]
    cut = sc["cut"] % max(1, len(raw))
    follower = b"PUT /second/one?x=1 HTTP/1.1\r\nHost: second.example\r\nX-Second: yes\r\n\r\n" if sc.get("follower") else b""
    if follower and not reqgen.base_must_close(m):
        # the end of the first message is cut a few bytes before its last byte, the rest travels with the follower
        c2 = max(1, len(raw) - 1 - sc.get("cut2", 0))
        steps = [("send", raw[:c2]), ("sleep", 0.0002), ("send", raw[c2:] + follower)]
    else:
        follower = b""
        steps = [("send", raw[:cut]), ("sleep", 0.0002), ("send", raw[cut:])] if cut else [("send", raw)]
    peer_addr = ("10.1.2.3", 50123)
    sim.add_client(steps, cid=0, addr="" if sc["unix"] else peer_addr)
    sim.run()

    peer = "localhost" if sc["unix"] else "10.1.2.3"
    feat = "%s/%s/%s" % (m["target_form"], m["framing"], "unix" if sc["unix"] else "tcp")
    if not app.calls and m.get("mutation") == "obs_fold" and bytes(sim.conns.get(0).wire[:12]) == b"HTTP/1.0 400" or \
            not app.calls and m.get("mutation") == "obs_fold" and bytes(sim.conns.get(0).wire[:12]) == b"HTTP/1.1 400":
        pass  # refused: allowed for obsolete line folding
    elif not app.calls:
        s = sim.conns.get(0)
        res.v("not_delivered", feat, "a canonical request did not reach the application: wire %r, request %r" % (bytes(s.wire[:120]) if s else None, raw[:200]))
    else:
        c = app.calls[0]
        env = c["environ"]
        want = model(m, sc, peer)
        for key, val in want.items():
            if env.get(key) != val:
                res.v("environ", key if not key.startswith("HTTP_") else "HTTP_*", "environ[%r] = %r, the request prescribes %r; request %r; url_prefix %r" % (
                    key, env.get(key), val, raw[:200], sc["url_prefix"]))
        extra = [kk for kk in env if (kk.startswith("HTTP_") or kk in ("CONTENT_LENGTH", "CONTENT_TYPE")) and kk not in want]
        if extra:
            res.v("environ", "unexpected_key", "environ has keys the request does not justify: %r; request %r" % ({kk: env[kk] for kk in extra}, raw[:200]))
        for kk, vv in env.items():
            if isinstance(vv, str) and any(ord(ch) > 255 for ch in vv):
                res.v("native_string", kk, "environ[%r] contains code points > 255" % kk)
            if (kk.startswith("HTTP_") or kk.isupper()) and not isinstance(vv, str):
                res.v("native_string", kk + ":type", "environ[%r] is %s" % (kk, type(vv).__name__))
        body = c["input"]
        if body != m["body"]:
            res.v("body", feat, "wsgi.input yielded %d bytes %r..., the framed body is %d bytes %r... (inbuf_overflow %d)" % (
                len(body or b""), (body or b"")[:40], len(m["body"]), m["body"][:40], sc["inbuf_overflow"]))
        if m["framing"] != "none":
            try:
                n = int(env.get("CONTENT_LENGTH", "-1"))
            except ValueError:
                n = -1
            if n != len(body or b""):
                res.v("body", feat + ":content_length", "CONTENT_LENGTH %r but wsgi.input yields %d bytes" % (env.get("CONTENT_LENGTH"), len(body or b"")))
        if "HTTP_TRANSFER_ENCODING" in env:
            res.v("environ", "transfer_encoding_visible", "HTTP_TRANSFER_ENCODING reached the application")
    if follower and app.calls:
        if len(app.calls) < 2:
            res.v("follower", "not_delivered", "the request behind the first one did not reach the application (first: %r)" % (raw[:120],))
        else:
            e2 = app.calls[1]["environ"]
            got2 = (e2.get("REQUEST_METHOD"), e2.get("PATH_INFO") if not sc["url_prefix"] else e2.get("REQUEST_URI"), e2.get("QUERY_STRING"), e2.get("HTTP_HOST"), e2.get("HTTP_X_SECOND"))
            want2 = ("PUT", "/second/one" if not sc["url_prefix"] else "/second/one?x=1", "x=1", "second.example", "yes")
            if got2 != want2:
                res.v("follower", "wrong_environ", "the request behind the first one was delivered as %r, sent %r; first message ended %r" % (got2, want2, raw[-40:]))
            alien = [kk for kk in e2 if kk.startswith("HTTP_") and kk not in ("HTTP_HOST", "HTTP_X_SECOND")]
            if alien:
                res.v("follower", "foreign_fields", "the second request's environ carries fields of the first: %r" % (alien,))
    if k.end_reason == "step_cap":
        res.harness_error = "step cap reached"
    if k.harness_error:
        res.harness_error = k.harness_error
    res.digest = k.digest()
    res.stats = common.base_stats(sim)
    pr = "none" if not sc["url_prefix"] else ("prefix_match" if m["target"].startswith(sc["url_prefix"].encode()) else "prefix_other")
    body_path = "none" if m["framing"] == "none" else ("spill" if len(m["body"]) >= sc["inbuf_overflow"] else "memory")
    res.stats["cells"] = ["%s/%s/%s/%s" % (m["target_form"], m["framing"], body_path, pr)]
    res.interleaving = k.switch_hash.hexdigest()
    res.nontrivial = len(m["fields"]) >= 4 or bool(m["body"])
    res.sample = {"request": raw[:300].decode("latin-1"), "url_prefix": sc["url_prefix"], "url_scheme": sc["url_scheme"],
                  "server_name": sc["server_name"], "unix": sc["unix"], "inbuf_overflow": sc["inbuf_overflow"],
                  "environ_subset": {kk: vv for kk, vv in (app.calls[0]["environ"].items() if app.calls else []) if isinstance(vv, str) and not kk.startswith("wsgi.")}}
    return res
