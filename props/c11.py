"""C11 - nothing is executed after the server has decided to close a connection."""
from sim.harness import Simulation
from sim.shims import NetConfig
from sim.runner import RunResult
from models.r2_response import parse_stream
from . import common
from .common import ScriptedApp, build_request, token_body, AppExc

PROPERTY = "C11"
LEVEL = "exploration"
BUDGET = {"quick": 60, "thorough": 600}
CAUSES = ["conn_close", "http10", "bad_request", "too_few_bytes", "too_few_bytes_zero", "exc_after_head", "no_length",
          "client_fin", "client_rst", "bad_chunk", "oversize_body", "send_error", "recv_error", "te_cl_both", "te_cl_empty"]
FOLLOW = ["complete", "partial", "garbage", "complete_with_body"]
EVIDENCE = {
    "rule": "one or two connections; 0-3 ordinary keep-alive requests, then a closing message (cause drawn from: "
            + ", ".join(CAUSES) + "), then 1-3 followers (" + ", ".join(FOLLOW) + ") in the same segment or a later "
            "one; lookahead in {0,1,2,5}; 1-2 workers; scheduler arms incl. targeted starvation of the worker or the "
            "I/O thread right when the closing request's application call ends; line-level pre-emption in part of the "
            "runs; distinct = distinct history digest; non-trivial = a complete follower request was delivered to the "
            "server's socket before the connection was closed",
    "real": common.REAL, "stub": common.STUB,
    "assumptions": [
        "the close decision is read off the wire: the first final response that announces or implies closing (Connection: close, HTTP/1.0 without keep-alive, server error status, truncated body)",
        "for client faults the rule is: if the server closed the socket before application call k returned, call k+1 must not exist",
        "a worker's flush that merely could not send (the peer is gone: send reports 0 bytes) is a hint, not the decision - the I/O thread decides - and is not used as the decision point; "
        "a worker's flush that fails with any other socket error is the decision (the channel marks itself will_close there): the request being served is the last one",
        "a recv() that fails with such an error on the I/O thread is the decision as soon as the loop is back in its poll: no request whose task a worker takes from the pool after that may be executed",
    ],
}


def gen(W):
    sc = {}
    sc["threads"] = W.choice([1, 2])
    sc["lookahead"] = W.choice([0, 1, 2, 5])
    sc["recv_bytes"] = W.choice([8192, 64, 7, 1], p0=0.5)
    sc["send_bytes"] = W.choice([18000, 1])
    sc["sendbuf_len"] = W.choice([8192, 64, 8])
    sc["sndbuf_cap"] = W.choice([65536, 300])
    sc["use_poll"] = W.chance(0.3)
    sc["p_partial"] = W.choice([0.0, 0.5])
    sc["log_socket_errors"] = W.chance(0.6)
    nconn = 1 + W.draw(2, p0=0.8)
    conns = []
    for cid in range(nconn):
        c = {}
        c["before"] = W.draw(4)
        c["cause"] = W.choice(CAUSES)
        c["followers"] = [W.choice(FOLLOW) for _ in range(1 + W.draw(3))]
        c["later_segment"] = W.choice([0, 1, 2])  # 0 same segment, 1 after delay, 2 after response bytes seen
        c["delay"] = W.choice([0.0001, 0.002, 0.05])
        c["starve"] = W.choice([None, ["worker", 20], ["worker", 200], ["io", 20], ["io", 200]])
        c["app_sleep"] = W.choice([0, 0.0005, 0.01])
        c["cuts"] = common.cut_points(W, 600, 2)
        c["fault_after"] = W.draw(400)
        c["errno"] = W.choice(["ETIMEDOUT", "EHOSTUNREACH", "ENOBUFS", "EINVAL"])
        conns.append(c)
    sc["conns"] = conns
    sc["sched"], sc["trace"] = common.draw_sched(W, walk_p=0.7)
    sc["sched"]["delay"] = True
    return sc


def cpos_of(p):
    return p["cpos"]


def run_one(tapes, tier, scenario=None):
    sc = scenario if scenario is not None else gen(tapes.W)
    res = RunResult()
    res.scenario = sc
    knobs = dict(threads=sc["threads"], channel_request_lookahead=sc["lookahead"], recv_bytes=sc["recv_bytes"],
                 send_bytes=sc["send_bytes"], asyncore_use_poll=sc["use_poll"], max_request_body_size=5000,
                 log_socket_errors=sc.get("log_socket_errors", True))
    net = NetConfig(sendbuf_len=sc["sendbuf_len"], sndbuf_cap=sc["sndbuf_cap"], p_partial_send=sc["p_partial"])
    sim = Simulation(tapes, knobs=knobs, net=net, sched=sc["sched"], trace=sc["trace"], horizon=60.0)
    k = sim.k
    scripts = {}
    plans = {}
    for cid, c in enumerate(sc["conns"]):
        pos = 0
        first = b""
        methods = []
        for i in range(c["before"]):
            path = "/c%d/r%d" % (cid, pos)
            body = token_body(cid, pos, 30)
            scripts[path] = {"chunks": [body], "cl": len(body)}
            first += build_request("GET", path, "1.1", [("Host", "s")])
            methods.append("GET")
            pos += 1
        cpos = pos
        path = "/c%d/r%d" % (cid, pos)
        body = token_body(cid, pos, 40)
        script = {"chunks": [body[:20], body[20:]], "cl": len(body), "kind": "gen"}
        if c["app_sleep"]:
            script["sleeps"] = {1: c["app_sleep"]}
        if c["starve"]:
            script["starve"] = tuple(c["starve"])
        cause = c["cause"]
        hdrs = [("Host", "s")]
        version = "1.1"
        closing_app = True
        rq = None
        if cause == "conn_close":
            hdrs.append(("Connection", "close"))
        elif cause == "http10":
            version = "1.0"
        elif cause == "bad_request":
            rq = b"GET %s HTTP/1.1\r\nHost: s\r\nBad Header Line\r\n\r\n" % path.encode()
            closing_app = False
        elif cause == "too_few_bytes":
            script["cl"] = len(body) + 7
        elif cause == "too_few_bytes_zero":
            # declares a length and produces nothing at all
            script["cl"] = 9
            script["chunks"] = [b""]
            script.pop("sleeps", None)
        elif cause == "exc_after_head":
            script["raise_at"] = (("next", 1), AppExc)
        elif cause == "no_length":
            script["cl"] = None
        elif cause == "bad_chunk":
            rq = (b"POST %s HTTP/1.1\r\nHost: s\r\nTransfer-Encoding: chunked\r\n\r\n" % path.encode()) + b"3\r\nabcXX\r\n0\r\n\r\n"
            closing_app = False
        elif cause in ("te_cl_both", "te_cl_empty"):
            # Transfer-Encoding next to a Content-Length (RFC 9112 6.1: answer, then close - the framing of what
            # follows cannot be trusted); the application is called, the decision to close is the server's
            rq = (b"POST %s HTTP/1.1\r\nHost: s\r\nTransfer-Encoding: chunked\r\nContent-Length:%s\r\n\r\n" % (
                path.encode(), b" 3" if cause == "te_cl_both" else b"")) + b"3\r\nabc\r\n0\r\n\r\n"
        elif cause == "oversize_body":
            rq = b"POST %s HTTP/1.1\r\nHost: s\r\nContent-Length: 999999\r\n\r\n" % path.encode()
            closing_app = False
        scripts[path] = script
        if rq is None:
            rq = build_request("GET", path, version, hdrs)
        first += rq
        methods.append("POST" if rq.startswith(b"POST") else "GET")
        pos += 1
        second = b""
        fpaths = []
        for f in c["followers"]:
            path = "/c%d/r%d" % (cid, pos)
            fb = token_body(cid, pos, 25)
            scripts[path] = {"chunks": [fb], "cl": len(fb), "read_input": True}
            if f == "complete":
                second += build_request("GET", path, "1.1", [("Host", "s")])
                fpaths.append(path)
            elif f == "complete_with_body":
                second += build_request("POST", path, "1.1", [("Host", "s")], b"x" * 33)
                fpaths.append(path)
            elif f == "partial":
                second += build_request("POST", path, "1.1", [("Host", "s")], b"y" * 50)[:-20]
                fpaths.append(path)
                break
            else:
                second += b"\x00\xffGARBAGE no http here\r\n\r\n"
            methods.append("GET")
            pos += 1
        plans[cid] = {"first": first, "second": second, "cpos": cpos, "methods": methods, "cause": cause,
                      "closing_app": closing_app, "fpaths": fpaths}
    app = ScriptedApp(sim, scripts)
    sim.build(app)
    for cid, c in enumerate(sc["conns"]):
        p = plans[cid]
        steps = []
        first, second = p["first"], p["second"]
        if c["later_segment"] == 0:
            data = first + second
            for seg in common.split_chunks(data, [x for x in c["cuts"] if x < len(data)]):
                steps.append(("send", seg))
        else:
            for seg in common.split_chunks(first, [x for x in c["cuts"] if x < len(first)]):
                steps.append(("send", seg))
            if c["later_segment"] == 1:
                steps.append(("sleep", c["delay"]))
            else:
                steps.append(("wait", ("bytes", 1 + c["fault_after"] % 120), 0.2))
            steps.append(("send", second))
        if p["cause"] == "client_fin":
            steps.append(("fin",))
        elif p["cause"] == "client_rst":
            steps.append(("wait", ("bytes", c["fault_after"]), c["delay"]))
            steps.append(("rst",))
        elif p["cause"] == "send_error":
            # the network towards this client fails: the n-th send() on the connection raises an error that is
            # not one of the "peer is gone" codes
            import errno as _errno
            sim.add_fault(cid, "send", c["fault_after"] % 6, getattr(_errno, c.get("errno", "ETIMEDOUT")))
        elif p["cause"] == "recv_error":
            # the n-th recv() on the connection raises such an error (the I/O thread meets it)
            import errno as _errno
            sim.add_fault(cid, "recv", c["fault_after"] % 5, getattr(_errno, c.get("errno", "ETIMEDOUT")))
        sim.add_client(steps, cid=cid)

    sim.run()

    # ---------------------------------------------------------------- oracle
    delivered_follower = False
    for cid, p in plans.items():
        s = sim.conns.get(cid)
        if s is None:
            continue
        calls = common.calls_of(app, cid)
        call_pos = []
        for c in calls:
            try:
                call_pos.append(int(c["path"].rsplit("/r", 1)[1]))
            except Exception:
                call_pos.append(-1)
        rs, probs = parse_stream(s.wire, p["methods"], s.closed)
        finals = [r for r in rs if not r.interim]
        kclose = None
        why = None
        for i, r in enumerate(finals):
            if r.status is None:
                break
            if r.close_announced:
                kclose, why = i, "Connection: close"
            elif r.version == "1.0" and not r.keepalive_announced:
                kclose, why = i, "HTTP/1.0 response without keep-alive"
            elif r.status in (400, 413, 431, 500, 501) and r.get("Server") is not None and b"generated by" in r.body:
                kclose, why = i, "server error response %d" % r.status
            elif not r.complete and not s.rst and not any(e[2] == "fault" and e[3] == cid and e[4] in ("send", "recv") for e in k.history):
                # (a response cut short by the client's own reset, or by the injected failure of send() itself, is
                # not a server decision: the rules for faults below apply instead)
                kclose, why = i, "undelimitable response"
            if kclose is not None:
                break
        if p["cause"] in ("too_few_bytes", "too_few_bytes_zero", "exc_after_head", "te_cl_both", "te_cl_empty") and cpos_of(p) in call_pos:
            # the application itself made response cpos undelimitable: whatever the wire looks like to a parser that
            # is misled by the following bytes, the decision point is known from the script
            if kclose is None or kclose > cpos_of(p):
                kclose, why = cpos_of(p), ("response could not be delimited as announced (%s)" if not p["cause"].startswith("te_cl") else "request carried Transfer-Encoding and Content-Length (%s): close after responding") % p["cause"]
        if kclose is not None:
            later = [pos for pos in call_pos if pos > kclose]
            if later:
                res.v("executed_after_close", "response:" + p["cause"],
                      "conn %d: response %d closes the connection (%s) but the application was called for request(s) %r; calls %r; lookahead %d" % (
                          cid, kclose, why, later, call_pos, sc["lookahead"]))
        # client faults / any teardown: no call k+1 if the socket was closed before call k returned
        if s.close_log:
            close_seq = s.close_log[0][0]
            for i, c in enumerate(calls[:-1]):
                if c["end"] is None or c["end"] > close_seq:
                    nxt = calls[i + 1]
                    res.v("executed_after_teardown", p["cause"],
                          "conn %d: socket closed (seq %d) before call %d returned (seq %r) yet call %d began at seq %d" % (
                              cid, close_seq, i, c["end"], i + 1, nxt["begin"]))
                    break
        # a socket error met by a worker while it sends output of call k: the connection is given up there and then,
        # by the very thread that would otherwise go on to start request k+1
        for e in k.history:
            if e[2] == "fault" and e[3] == cid and e[4] == "send" and e[1] != "io" and e[6] not in ("RST", "FIN", "FIN-arrives"):
                during = [i for i, c in enumerate(calls) if c["begin"] is not None and c["begin"] < e[0]]
                after = [c for c in calls if c["begin"] is not None and c["begin"] > e[0]]
                if during and after:
                    res.v("executed_after_send_error", p["cause"],
                          "conn %d: send() raised %s on worker %s at seq %d while request %d was being served, yet the application was called again at seq %d for %s; lookahead %d" % (
                              cid, e[6], e[1], e[0], call_pos[during[-1]], after[0]["begin"], after[0]["path"], sc["lookahead"]))
                break
        # a socket error met by the I/O thread while reading: by the time the loop is back in its poll the
        # connection has been given up, and nothing that was queued on it may start any more
        for e in k.history:
            if e[2] == "fault" and e[3] == cid and e[4] == "recv" and e[1] == "io" and e[6] not in ("RST", "FIN", "FIN-arrives", "EAGAIN", "EWOULDBLOCK"):
                back = next((x[0] for x in k.history if x[0] > e[0] and x[1] == "io" and x[2] in ("select", "poll")), None)
                if back is not None:
                    # (a worker that had taken the connection's task before that may be past its own check already)
                    pops = [x[0] for x in k.history if x[2] == "task_pop" and x[3] == cid]
                    after = [c for c in calls if c["begin"] is not None and c["begin"] > back
                             and max([q for q in pops if q < c["begin"]] or [0]) > back]
                    if after:
                        res.v("executed_after_recv_error", p["cause"],
                              "conn %d: recv() raised %s at seq %d, the I/O loop was back in its poll at seq %d, yet the application was called at seq %d for %s; lookahead %d" % (
                                  cid, e[6], e[0], back, after[0]["begin"], after[0]["path"], sc["lookahead"]))
                break
        if sorted(call_pos) != call_pos or len(set(call_pos)) != len(call_pos):
            res.v("order", "calls_out_of_order", "conn %d: calls %r" % (cid, call_pos))
        # non-trivial: follower bytes reached the server socket before it was closed
        sent_total = s.recv_total + len(s.inq)
        if p["second"] and s.recv_total > len(p["first"]):
            delivered_follower = True
    for t in sim.final_threads:
        if t[3] is not None:
            res.v("thread_died", t[0], "thread %s died with %s" % (t[0], t[3]))
    if k.end_reason == "step_cap":
        res.harness_error = "step cap reached"
    if k.harness_error:
        res.harness_error = k.harness_error
    res.digest = k.digest()
    res.stats = common.base_stats(sim)
    res.stats["cells"] = ["%s/%s/seg%d/la%d" % (c["cause"], c["followers"][0], c["later_segment"], sc["lookahead"]) for c in sc["conns"]]
    res.interleaving = k.switch_hash.hexdigest()
    res.nontrivial = delivered_follower
    res.sample = {"lookahead": sc["lookahead"], "threads": sc["threads"], "recv_bytes": sc["recv_bytes"],
                  "conns": [{kk: c[kk] for kk in ("before", "cause", "followers", "later_segment", "starve")} for c in sc["conns"]],
                  "sched": sc["sched"], "trace": sc["trace"], "app_calls": [c["path"] for c in app.calls],
                  "end": k.end_reason, "steps": k.steps, "switches": k.switches}
    return res
