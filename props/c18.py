"""C18 - connection limit holds; idle connections are reaped, busy ones never."""
from sim.harness import Simulation
from sim.shims import NetConfig
from sim.runner import RunResult
from models.r2_response import parse_stream
from . import common
from .common import ScriptedApp, build_request, token_body

PROPERTY = "C18"
LEVEL = "exploration"
BUDGET = {"quick": 40, "thorough": 600}
BEHAV = ["idle", "partial", "request", "request_stall", "two_requests", "request_then_partial", "fin_later", "slow_reader",
         "trickle"]
EVIDENCE = {
    "rule": "event histories under the simulated clock: up to connection_limit+3 connections started at seeded times, each "
            "with a behaviour from " + ", ".join(BEHAV) + " (applications sleep 0 / 0.5x / 2x / 5x channel_timeout; stalled "
            "clients leave unsent output pending); connection_limit 4-8, channel_timeout {2,5,120}, cleanup_interval "
            "{1,3,30}, asyncore_loop_timeout {1,2}, 1-2 listening sockets, select and poll; the run continues through "
            "all timers until every deadline implied by the history has passed; distinct = distinct history digest; "
            "non-trivial = at least one connection was reaped by the maintenance pass or the accept gate closed",
    "real": common.REAL, "stub": common.STUB,
    "assumptions": [
        "reap deadline = a + channel_timeout + cleanup_interval + asyncore_loop_timeout + 1 s, a = latest of accept, last data-bearing recv, last byte sent, end of the last application call (the 1 s covers simulated step costs and integer rounding)",
        "a request is 'in progress' from the recv that delivered its last byte until its application call returned",
        "clock jumps are modelled as idle gaps of the simulated clock (timers and time.time() share one clock)",
    ],
}


def gen(W):
    sc = {}
    sc["limit"] = 4 + W.draw(5)
    sc["timeout"] = W.choice([5, 2, 120])
    sc["cleanup"] = W.choice([1, 3, 30])
    sc["loop"] = W.choice([1, 2])
    sc["listeners"] = 1 + W.draw(2, p0=0.7)
    sc["use_poll"] = W.chance(0.4)
    sc["threads"] = W.choice([1, 2, 4])
    sc["sndbuf_cap"] = W.choice([65536, 400])
    T = sc["timeout"]
    n = 1 + W.draw(sc["limit"] + 3)
    conns = []
    for c in range(n):
        b = {"kind": W.choice(BEHAV)}
        b["start"] = W.choice([0.0, 0.01, 0.5 * T, 1.1 * T, 2.5 * T])
        b["app_sleep"] = W.choice([0, 0.5 * T, 2 * T, 5 * T], p0=0.4)
        b["gap"] = W.choice([0.3 * T, 0.9 * T, 1.6 * T])
        b["listener"] = W.draw(sc["listeners"])
        b["resp"] = W.choice([20, 3000])
        b["drain_every"] = W.choice([0.2 * T, 0.45 * T, 0.8 * T])
        conns.append(b)
    sc["conns"] = conns
    sc["sched"] = {"kind": W.choice(["rtb", "walk"], p0=0.7), "gap_mean": 40}
    return sc


def Violation_spin(v_):
    """a connection that is never closed while the I/O loop spins on it (the run ended at its step bound)"""
    v_.disc = v_.disc + "+loop_spins"
    return v_


def run_one(tapes, tier, scenario=None):
    sc = scenario if scenario is not None else gen(tapes.W)
    res = RunResult()
    res.scenario = sc
    T, C, L = sc["timeout"], sc["cleanup"], sc["loop"]
    knobs = dict(threads=sc["threads"], connection_limit=sc["limit"], channel_timeout=T, cleanup_interval=C,
                 asyncore_loop_timeout=L, asyncore_use_poll=sc["use_poll"])
    net = NetConfig(sendbuf_len=8192, sndbuf_cap=sc["sndbuf_cap"])
    last_start = max(b["start"] for b in sc["conns"])
    horizon = last_start + 2 * max(b["gap"] for b in sc["conns"]) + 2 * max(b["app_sleep"] for b in sc["conns"]) + 3 * (T + C + L) + 10
    if any(b["kind"] in ("slow_reader", "trickle") for b in sc["conns"]):
        horizon += 14 * T
    sim = Simulation(tapes, knobs=knobs, net=net, sched=sc["sched"], n_listeners=sc["listeners"],
                     horizon=horizon, stop_at_idle=False, step_cap=400000)
    k = sim.k
    k.keep_times = True
    scripts = {}
    plans = {}
    for cid, b in enumerate(sc["conns"]):
        kind = b["kind"]
        body = token_body(cid, 0, b["resp"] if kind != "slow_reader" else 12 * max(40, sc["sndbuf_cap"] // 2))
        sleeps = {"call": b["app_sleep"]} if b["app_sleep"] else {}
        scripts["/c%d/a" % cid] = {"chunks": [body], "cl": len(body), "sleeps": sleeps, "kind": "gen" if sleeps else "list"}
        scripts["/c%d/b" % cid] = {"chunks": [b"second"], "cl": 6}
        r1 = build_request("GET", "/c%d/a" % cid, "1.1", [("Host", "s")])
        r2 = build_request("GET", "/c%d/b" % cid, "1.1", [("Host", "s")])
        steps = []
        if kind == "idle":
            pass
        elif kind == "partial":
            steps = [("send", r1[:-7])]
        elif kind == "request":
            steps = [("send", r1)]
        elif kind == "request_stall":
            steps = [("mode", "stalled"), ("send", r1)]
        elif kind == "slow_reader":
            # a client that keeps reading, slowly but steadily, for several channel_timeouts
            steps = [("mode", "slow", max(40, sc["sndbuf_cap"] // 2), b.get("drain_every", 0.45 * T)), ("send", r1)]
        elif kind == "two_requests":
            steps = [("send", r1), ("sleep", b["gap"]), ("send", r2)]
        elif kind == "trickle":
            # an upload that takes several channel_timeouts in total but never pauses for a whole one
            n = 8
            step = max(1, len(r1) // n)
            pieces = [r1[i:i + step] for i in range(0, len(r1), step)]
            steps = []
            for i, pc in enumerate(pieces):
                if i:
                    steps.append(("sleep", b.get("drain_every", 0.45 * T)))
                steps.append(("send", pc))
        elif kind == "request_then_partial":
            steps = [("send", r1), ("sleep", b["gap"]), ("send", r2[:9])]
        elif kind == "fin_later":
            steps = [("send", r1), ("sleep", b["gap"]), ("fin",)]
        plans[cid] = {"steps": steps, "r1": r1, "r2": r2}
    app = ScriptedApp(sim, scripts)
    sim.build(app)
    for cid, b in enumerate(sc["conns"]):
        sim.add_client(plans[cid]["steps"], cid=cid, start=b["start"], listener=b["listener"])
    nlisten = sc["listeners"]
    allowed = sc["limit"] + (nlisten - 1)
    worst = {"size": 0}

    def on_step(k):
        n = len(sim.map)
        if n > worst["size"]:
            worst["size"] = n

    k.on_step = on_step
    snap = {}

    def on_finish(k):
        for cid, ch in sim.chan_by_cid.items():
            sock = sim.conns.get(cid)
            snap[cid] = {"pending": getattr(ch, "total_outbufs_len", 0), "will_close": getattr(ch, "will_close", None),
                         "writable": sock.w_ready() if sock is not None else None,
                         "requests": len(getattr(ch, "requests", ()))}

    k.on_finish = on_finish
    sim.run()

    # ---------------------------------------------------------------- oracle
    H = k.history
    tm = k.time_of
    t0 = k.t0
    # map size over time from mutations
    size = 0
    max_size = 0
    fds = set()
    accept_at_limit = None
    for e in H:
        if e[2] == "map_set":
            fds.add(e[3])
            max_size = max(max_size, len(fds))
        elif e[2] == "map_del":
            fds.discard(e[3])
        elif e[2] == "accept":
            if len(fds) >= allowed + 0 and accept_at_limit is None and len(fds) >= sc["limit"] + nlisten - 1 + 1:
                accept_at_limit = (e[0], len(fds))
    if max_size > allowed:
        res.v("limit", "map_exceeds_limit", "socket map held %d descriptors, connection_limit=%d with %d listening socket(s)" % (max_size, sc["limit"], nlisten))
    # per-connection timelines
    reaped = 0
    gate = any("no longer accepting" in r[2] for r in sim.logcap.records)
    end_t = k.end_time
    for cid, b in enumerate(sc["conns"]):
        s = sim.conns.get(cid)
        if s is None or s.accepted_seq is None:
            continue
        acc_t = tm[s.accepted_seq]
        act = [acc_t]
        total = 0
        req_ends = []  # stream offsets of complete requests sent by this client
        kind = b["kind"]
        p = plans[cid]
        if kind in ("request", "request_stall", "two_requests", "request_then_partial", "fin_later", "slow_reader", "trickle"):
            req_ends.append(len(p["r1"]))
        if kind == "two_requests":
            req_ends.append(len(p["r1"]) + len(p["r2"]))
        recv_complete_t = []
        fin_seen = None
        for e in H:
            if e[2] == "recv" and e[3] == cid:
                if e[4] > 0:
                    total += e[4]
                    act.append(tm[e[0]])
                    while len(recv_complete_t) < len(req_ends) and total >= req_ends[len(recv_complete_t)]:
                        recv_complete_t.append(tm[e[0]])
                else:
                    fin_seen = tm[e[0]]
            elif e[2] == "send" and e[3] == cid:
                act.append(tm[e[0]])
        calls = common.calls_of(app, cid)
        busy = []  # (from, to)
        for i, rt in enumerate(recv_complete_t):
            if i < len(calls) and calls[i]["end"] is not None:
                busy.append((rt, tm[calls[i]["end"]]))
                act.append(tm[calls[i]["end"]])
            else:
                busy.append((rt, None))
        close_t = tm[s.close_log[0][0]] if s.close_log else None
        # never reaped while busy
        if close_t is not None and fin_seen is None:
            for frm, to in busy:
                if frm <= close_t and (to is None or close_t < to):
                    res.v("reaped_while_busy", kind, "conn %d closed by the server at t=%.3f while its request was in progress (%.3f .. %r); app_sleep=%s timeout=%s" % (
                        cid, close_t - t0, frm - t0, None if to is None else round(to - t0, 3), b["app_sleep"], T))
                    break
        # not idle long enough: closed although data was moving less than channel_timeout ago and the response is incomplete
        if close_t is not None and fin_seen is None and kind != "fin_later":
            before = [t_ for t_ in act if t_ <= close_t]
            rs_, probs_ = parse_stream(s.wire, ["GET", "GET"], True)
            incomplete = any(not r.complete for r in rs_ if not r.interim) or bool(probs_)
            if kind == "trickle" and not recv_complete_t:
                # the request itself was still arriving
                incomplete = True
            if before and (close_t - max(before)) < T - 0.001 and incomplete:
                res.v("reaped_while_active", kind, "conn %d closed by the server at t=%.3f, only %.3f s after its last activity (channel_timeout %s), with the response incomplete (%d bytes on the wire)" % (
                    cid, close_t - t0, close_t - max(before), T, len(s.wire)))
        # idle reaping
        still_busy = any(to is None for frm, to in busy)
        if not still_busy:
            a = max(act)
            deadline = a + T + C + L + 1.0
            if close_t is None:
                if end_t > deadline:
                    pending = len(p["r1"])  # placeholder to keep message informative
                    st = snap.get(cid, {})
                    marked_but_stuck = bool(st.get("will_close")) and st.get("pending", 0) > 0 and st.get("writable") is False
                    disc = "marked_will_close_but_peer_not_reading" if marked_but_stuck else kind
                    res.v("not_reaped", disc, "conn %d idle since t=%.3f (timeout %s + cleanup %s + loop %s) still open at t=%.3f; behaviour %s, bytes on wire %d, channel %r" % (
                        cid, a - t0, T, C, L, end_t - t0, kind, len(s.wire), snap.get(cid)))
            else:
                if close_t > deadline and close_t > a:
                    res.v("reaped_late", kind, "conn %d idle since t=%.3f closed only at t=%.3f (deadline %.3f)" % (cid, a - t0, close_t - t0, deadline - t0))
                if fin_seen is None and kind != "fin_later":
                    reaped += 1
    # accept gate liveness: nobody left waiting in the backlog while there is room
    for i, lst in enumerate(sim.listeners):
        if lst.backlog and len(sim.final_map_fds) < sc["limit"] and not lst.closed:
            res.v("accept_stalled", "backlog_with_room", "listener %d has %d connection(s) waiting although the map holds %d < limit %d at the end" % (
                i, len(lst.backlog), len(sim.final_map_fds), sc["limit"]))
    for t in sim.final_threads:
        if t[3] is not None or (t[0] == "io" and not t[2]):
            res.v("thread_died", t[0], "thread %s alive=%s exc=%s" % (t[0], t[2], t[3]))
    if k.end_reason == "step_cap":
        # the history is cut short: the clauses that look at the final state decide nothing.  "Still open long after
        # it should have been reaped" stands on a prefix too (a loop that spins has its clock moved on by the kernel,
        # in hops of at most 4 s - hence the extra margin), and so do the clauses about the map size and busy channels.
        keep = []
        for v_ in res.violations:
            if v_.clause in ("limit", "reaped_while_busy"):
                keep.append(v_)
            elif v_.clause == "not_reaped" and k.probes.get("spin_fast_forward") and "still open at t=" in v_.msg:
                idle_since = float(v_.msg.split("idle since t=")[1].split(" ")[0])
                if (end_t - t0) > idle_since + T + C + L + 1.0 + 8.0:
                    keep.append(Violation_spin(v_))
        res.violations = keep
        if not keep:
            res.harness_error = "step cap reached"
    if k.harness_error:
        res.harness_error = k.harness_error
    res.digest = k.digest()
    res.stats = common.base_stats(sim)
    res.stats["probes"]["maintenance_reaped"] = reaped
    res.stats["probes"]["accept_gated"] = 1 if gate else 0
    res.stats["cells"] = ["%s/T%s/C%s" % (b["kind"], T, C) for b in sc["conns"]]
    res.interleaving = k.switch_hash.hexdigest()
    res.nontrivial = reaped > 0 or gate
    res.sample = {"limit": sc["limit"], "channel_timeout": T, "cleanup_interval": C, "loop_timeout": L,
                  "listeners": nlisten, "use_poll": sc["use_poll"],
                  "connections": [(b["kind"], b["start"], b["app_sleep"]) for b in sc["conns"]],
                  "max_map_size": max_size, "reaped": reaped, "accept_gated": gate,
                  "simulated_seconds": round(k.end_time - k.t0, 2), "end": k.end_reason, "steps": k.steps}
    return res
