"""C08 - applications cannot split or inject into the response head."""
from sim.harness import Simulation
from sim.shims import NetConfig
from sim.runner import RunResult
from models.r2_response import parse_stream
from . import common
from .common import build_request

PROPERTY = "C08"
LEVEL = "exploration"
BUDGET = {"quick": 30, "thorough": 600}
MARK = "MaRk9"
SERVER_FIELDS = {"date", "server", "via", "connection", "content-length", "transfer-encoding"}
OFFENDERS = {
    "CR": "\r", "LF": "\n", "CRLF": "\r\n", "NUL": "\x00", "VT": "\x0b", "FF": "\x0c", "NEL": "\x85", "U2028": " ",
    "U0100": "Ā", "COLON": ":", "SPACE": " ", "TAB": "\t", "DEL": "\x7f", "LATIN1": "\xe9", "INJECT": "\r\nX-Injected: 1",
    "SPLIT": "\r\n\r\nHTTP/1.1 200 OK\r\n",
    # letters whose str.capitalize()/upper() is not a one-to-one case change
    "SHARP_S": "\xdf", "LIG_FI": "\ufb01", "DZ_DIGRAPH": "\u01c6", "N_APOS": "\u0149",
}


class Chameleon(str):
    """a str whose content is harmless and whose __str__() is not (what '%s' formatting calls)"""

    def __str__(self):
        return str.__str__(self) + "\r\nX-Injected: 1"

    def __repr__(self):
        return "Chameleon(%s)" % str.__repr__(self)

MUST_REFUSE = {"CR", "LF", "CRLF", "INJECT", "SPLIT"}
HOP = ["Connection", "Keep-Alive", "Proxy-Authenticate", "Proxy-Authorization", "TE", "Trailer", "Transfer-Encoding", "Upgrade",
       "transfer-encoding", "CONNECTION"]
EVIDENCE = {
    "rule": "one application script per run: 0-5 benign header pairs plus one hostile element: an offending code point ("
            + ", ".join(sorted(OFFENDERS)) + ") at the first/middle/last position of the status string, a header name or a "
            "header value; an empty name; a non-str status/name/value (bytes, int, None); a str subclass whose __str__() differs from "
            "its content; a hop-by-hop name; delivered through "
            "the initial start_response, through the exc_info re-call, or by mutating the header list after the call; every "
            "generated string carries a marker so that application bytes are recognisable on the wire; distinct = distinct "
            "history digest; non-trivial = the script contains a hostile element",
    "real": common.REAL, "stub": common.STUB,
    "assumptions": [
        "line-level oracle: the head is split at CRLF; every line must be the status line, one of the application's accepted fields (name compared case-insensitively, value byte-identical) or a field whose name is in {Date, Server, Via, Connection, Content-Length, Transfer-Encoding}",
        "CR/LF in any string, non-str status/name/value and hop-by-hop names must yield a complete server-built 500 without the marker; other odd characters may be either refused that way or emitted as one unsplit line",
    ],
}


def place(base, off, pos):
    if pos == 0:
        return off + base
    if pos == 1:
        h = len(base) // 2
        return base[:h] + off + base[h:]
    return base + off


def gen(W):
    sc = {}
    n = W.draw(6)
    hdrs = []
    for i in range(n):
        hdrs.append(["X-%s-%d" % (MARK, i), W.choice(["v%s" % MARK, "a b%s" % MARK, "%s" % MARK, "x;y=%s" % MARK])])
    if W.chance(0.5):
        hdrs.append(["Content-Type", "text/plain; %s" % MARK])
    sc["headers"] = hdrs
    sc["status"] = W.choice(["200 OK", "204 No Content", "304 Not Modified", "404 Not Found"], p0=0.7)
    sc["hostile"] = W.choice(["char_status", "char_name", "char_value", "char_special", "empty_name", "nonstr_status", "nonstr_name",
                              "nonstr_value", "hop_by_hop", "none", "strsub_status", "strsub_name", "strsub_value"], p0=0.05)
    sc["special"] = W.choice(["Content-Length", "content-length", "Date", "Server", "Content-Type", "Set-Cookie", "CONTENT-LENGTH"])
    sc["off"] = W.choice(sorted(OFFENDERS))
    sc["pos"] = W.draw(3)
    sc["nonstr"] = W.choice(["bytes", "int", "none"])
    sc["hop"] = W.choice(HOP)
    sc["channel"] = W.choice(["first_call", "exc_info_recall", "mutate_after", "mutate_item_after", "swallow_refusal"])
    sc["index"] = W.draw(max(1, len(hdrs)))
    sc["body"] = W.choice([7, 0, 300])
    sc["declare_cl"] = W.chance(0.6)
    sc["version"] = W.choice(["1.1", "1.0"])
    sc["via_file"] = W.chance(0.1)
    if sc["status"][:3] in ("204", "304"):
        # responses without a body: the application's fields belong in the head all the same
        sc["body"] = 0
        sc["declare_cl"] = False
    return sc


def build_hostile(sc):
    """returns (status, headers list (python objects), must_refuse, description)"""
    hdrs = [tuple(h) for h in sc["headers"]]
    status = sc["status"] + " " + MARK if False else sc["status"]
    must = False
    h = sc["hostile"]
    off = OFFENDERS[sc["off"]]
    ns = {"bytes": b"bytes-" + MARK.encode(), "int": 42, "none": None}[sc["nonstr"]]
    i = sc["index"] % max(1, len(hdrs)) if hdrs else 0
    desc = h
    if h == "char_status":
        status = place(sc["status"] + MARK, off, sc["pos"])
        must = sc["off"] in MUST_REFUSE
        desc = "char_status:%s@%d" % (sc["off"], sc["pos"])
    elif h == "char_name":
        hdrs.insert(i, (place("X-Hostile" + MARK, off, sc["pos"]), "v" + MARK))
        must = sc["off"] in MUST_REFUSE
        desc = "char_name:%s@%d" % (sc["off"], sc["pos"])
    elif h == "char_value":
        hdrs.insert(i, ("X-Hostile" + MARK, place("value" + MARK, off, sc["pos"])))
        must = sc["off"] in MUST_REFUSE
        desc = "char_value:%s@%d" % (sc["off"], sc["pos"])
    elif h == "char_special":
        # headers the server treats specially (parsed, replaced or echoed) must get the same scrutiny
        nm = sc.get("special", "Content-Length")
        if nm.lower() == "content-length":
            base = str(sc["body"])
        elif nm.lower() == "date":
            base = "Tue, 14 Nov 2023 22:13:20 GMT"
        else:
            base = "v" + MARK
        hdrs = [x for x in hdrs if x[0].lower() != nm.lower()]
        hdrs.insert(i, (nm, place(base, off, sc["pos"])))
        must = sc["off"] in MUST_REFUSE
        desc = "char_special:%s:%s@%d" % (nm.lower(), sc["off"], sc["pos"])
    elif h == "empty_name":
        hdrs.insert(i, ("", "v" + MARK))
    elif h == "nonstr_status":
        status = ns
        must = True
        desc = "nonstr_status:" + sc["nonstr"]
    elif h == "nonstr_name":
        hdrs.insert(i, (ns, "v" + MARK))
        must = True
        desc = "nonstr_name:" + sc["nonstr"]
    elif h == "nonstr_value":
        hdrs.insert(i, ("X-Hostile" + MARK, ns))
        must = True
        desc = "nonstr_value:" + sc["nonstr"]
    elif h == "strsub_status":
        status = Chameleon(sc["status"] + MARK)
    elif h == "strsub_name":
        hdrs.insert(i, (Chameleon("X-Hostile" + MARK), "v" + MARK))
    elif h == "strsub_value":
        hdrs.insert(i, ("X-Hostile" + MARK, Chameleon("value" + MARK)))
    elif h == "hop_by_hop":
        hdrs.insert(i, (sc["hop"], "close" if sc["hop"].lower() == "connection" else "x" + MARK))
        must = True
        desc = "hop_by_hop:" + sc["hop"].lower()
    return status, hdrs, must, desc


class App:
    def __init__(self, sim, sc):
        self.sim = sim
        self.sc = sc
        self.calls = 0
        self.raised = None

    def __call__(self, environ, start_response):
        import sys
        sc = self.sc
        self.calls += 1
        status, hdrs, must, desc = build_hostile(sc)
        body = (MARK.encode() * 100)[:sc["body"]]
        benign = [tuple(h) for h in sc["headers"]]
        if sc["declare_cl"] and not (sc["hostile"] == "char_special" and sc.get("special", "").lower() == "content-length"):
            hdrs = hdrs + [("Content-Length", str(len(body)))]
            benign = benign + [("Content-Length", str(len(body)))]
        try:
            if sc["channel"] == "first_call":
                start_response(status, hdrs)
            elif sc["channel"] == "exc_info_recall":
                start_response("200 OK", list(benign))
                try:
                    raise ValueError("recall")
                except ValueError:
                    start_response(status, hdrs, sys.exc_info())
            elif sc["channel"] == "swallow_refusal":
                # the application (or a middleware) catches the refusal and carries on
                try:
                    start_response(status, hdrs)
                except BaseException as e:  # noqa
                    self.raised = type(e).__name__
            elif sc["channel"] == "mutate_item_after":
                # header items given as (mutable) lists and changed after the call
                items = [list(x) for x in benign]
                start_response("200 OK", items)
                extra = [x for x in hdrs if x not in benign]
                for x in extra:
                    if items and isinstance(x[0], str) and isinstance(x[1], str):
                        items[0][0], items[0][1] = x[0], x[1]
                        break
            else:
                lst = list(benign)
                start_response("200 OK", lst)
                # mutate the list the server was given
                extra = [x for x in hdrs if x not in benign]
                lst.extend(extra)
                if isinstance(status, str) and status != "200 OK":
                    lst.append(("X-Late-Status", status))
        except BaseException as e:
            self.raised = type(e).__name__
            raise
        if sc["via_file"] and body:
            import io
            return environ["wsgi.file_wrapper"](io.BytesIO(body))
        return [body]


def run_one(tapes, tier, scenario=None):
    sc = scenario if scenario is not None else gen(tapes.W)
    res = RunResult()
    res.scenario = sc
    sim = Simulation(tapes, knobs=dict(threads=1), net=NetConfig(), sched={"kind": "rtb"}, horizon=60.0)
    k = sim.k
    app = App(sim, sc)
    sim.build(app)
    import hashlib as _h
    k.log("scenario", _h.sha256(repr(sorted(res.scenario.items(), key=str)).encode("utf-8", "backslashreplace")).hexdigest()[:16])
    sim.add_client([("send", build_request("GET", "/", sc["version"], [("Host", "s")]))], cid=0)
    sim.run()
    status, hdrs, must, desc = build_hostile(sc)
    if sc["channel"] in ("mutate_after", "mutate_item_after", "swallow_refusal"):
        # what counts here is that nothing refused (or never validated) reaches the wire; a 500 is not prescribed
        must = False
    s = sim.conns.get(0)
    wire = bytes(s.wire)
    rs, probs = parse_stream(wire, ["GET"], s.closed)
    tag = "%s/%s" % (desc, sc["channel"])
    he = wire.find(b"\r\n\r\n")
    if he < 0:
        res.v("head_unterminated", tag, "no complete response head on the wire: %r" % (wire[:200],))
    else:
        class R:
            pass
        r = R()
        head = wire[:he]
        r.raw_head = head
        first = head.split(b"\r\n")[0]
        r.version = first[5:8].decode("latin-1") if first.startswith(b"HTTP/") else "?"
        r.status = 500 if first.startswith(b"HTTP/" + r.version.encode() + b" 500 ") else -1
        r.body = wire[he + 4:]
        lines = head.split(b"\r\n")
        for ln in lines:
            if b"\r" in ln or b"\n" in ln:
                res.v("bare_cr_lf_in_head", tag, "head line contains a bare CR or LF: %r" % (ln[:120],))
        server_500 = r.status == 500 and b"Internal Server Error" in r.body and MARK.encode() not in wire
        if must and not server_500:
            res.v("not_refused", tag, "the script contains a string that must be refused (%s) but the client got %r; head %r" % (desc, r.status, head[:300]))
        if r.status == 500 and not server_500 and MARK.encode() in wire:
            res.v("application_bytes_in_500", tag, "500 response carries application bytes: %r" % (wire[:300],))
        if r.status != 500:
            # line-level comparison
            want = [(n_, v_) for n_, v_ in hdrs if isinstance(n_, str) and isinstance(v_, str)]
            if sc["status"][:3] in ("204", "304"):
                # the server legitimately leaves a Content-Length out of a head that has no body
                want = [(n_, v_) for n_, v_ in want if n_.lower() != "content-length"]
            if sc["channel"] == "swallow_refusal" and app.raised is not None:
                # the call was refused and the application carried on regardless: the element that made the
                # server refuse must not be on the wire (bare CR/LF is checked above for every line)
                late = []
                benign_l = [tuple(h) for h in sc["headers"]]
                for n_, v_ in [x for x in want if x not in benign_l]:
                    line_ = ("%s: %s" % (n_, v_)).lower().encode("latin-1", "replace")
                    if n_.lower() in SERVER_FIELDS:
                        continue  # the server adds its own Connection / Transfer-Encoding ... lines
                    if any(ln.lower() == line_ for ln in lines[1:]):
                        res.v("refused_string_emitted", tag, "the header of the refused start_response call is on the wire: %r" % ((n_, v_),))
                if sc["hostile"] == "char_status" and isinstance(status, str) and lines[0].decode("latin-1").endswith(status):
                    res.v("refused_string_emitted", tag + ":status", "the refused status string is on the wire: %r" % (status,))
                # whatever else is emitted must be server fields or fields of the (not stored) call - i.e. nothing
                want = []
            if sc["channel"] in ("mutate_after", "mutate_item_after"):
                benign = [tuple(h) for h in sc["headers"]]
                late = [x for x in want if x not in benign]
                want = list(benign)  # what start_response was actually given
            else:
                late = []
            if sc["declare_cl"]:
                pass
            remaining = list(want)
            for ln in lines[1:]:
                try:
                    text = ln.decode("latin-1")
                except Exception:
                    text = None
                matched = None
                for idx, (n_, v_) in enumerate(remaining):
                    if len(text) == len(n_) + 2 + len(v_) and text[:len(n_)].lower() == n_.lower() and text[len(n_):len(n_) + 2] == ": " and text[len(n_) + 2:] == v_:
                        matched = idx
                        break
                if matched is not None:
                    remaining.pop(matched)
                    continue
                name = text.split(":", 1)[0].strip().lower()
                if name in SERVER_FIELDS:
                    continue
                # late additions through list mutation: tolerated only if they are clean single lines of the app
                ok_late = False
                for n_, v_ in late:
                    if text.lower() == ("%s: %s" % (n_, v_)).lower():
                        ok_late = True
                if ok_late:
                    res.v("late_mutation_emitted", tag, "a header appended to the list after start_response returned was emitted: %r" % (text[:100],))
                    continue
                res.v("foreign_line", tag, "head line %r is neither an application field nor a server field; application fields %r" % (ln[:120], want[:6]))
            if remaining and sc["channel"] not in ("mutate_after", "mutate_item_after") and not (sc["channel"] == "swallow_refusal" and app.raised is not None):
                res.v("field_lost", tag, "application fields missing from the head: %r; head %r" % (remaining[:4], head[:300]))
            st_line = lines[0].decode("latin-1")
            exp_status = status if sc["channel"] not in ("mutate_after", "mutate_item_after") and not (sc["channel"] == "swallow_refusal" and app.raised is not None) else None
            if isinstance(exp_status, str) and st_line != "HTTP/%s %s" % (r.version, str.__str__(exp_status)):
                res.v("status_line", tag, "status line %r, application said %r" % (st_line, exp_status))
    lp = common.log_problems(sim, patterns=("uncaptured python exception", "Exception when servicing"))
    if lp:
        from .pipeline import exc_disc
        res.v("escaped_exception", exc_disc(lp[0]) + ":" + tag, "server logged: %s\n%s" % (lp[0][1], lp[0][2]))
    for t in sim.final_threads:
        if t[3] is not None:
            res.v("thread_died", t[0], "thread %s died with %s" % (t[0], t[3]))
    if k.end_reason == "step_cap":
        res.harness_error = "step cap reached"
    if k.harness_error:
        res.harness_error = k.harness_error
    res.digest = k.digest()
    res.stats = common.base_stats(sim)
    res.stats["cells"] = ["%s/%s" % (desc, sc["channel"])]
    res.interleaving = k.switch_hash.hexdigest()
    res.nontrivial = sc["hostile"] != "none"
    res.sample = {"hostile": desc, "channel": sc["channel"], "status": repr(status)[:80],
                  "headers": [repr(h)[:80] for h in hdrs][:8], "must_refuse": must,
                  "wire_head": wire[:wire.find(b"\r\n\r\n") if b"\r\n\r\n" in wire else 200][:300].decode("latin-1")}
    return res
