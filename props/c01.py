"""C01 - request framing is unambiguous and agrees with RFC 9112."""
from sim.harness import Simulation
from sim.shims import NetConfig
from sim.runner import RunResult
from models.r2_response import parse_stream
from . import common, reqgen
from .common import ScriptedApp

PROPERTY = "C01"
LEVEL = "exploration"
BUDGET = {"quick": 30, "thorough": 600}
REFUSE = (400, 413, 431, 501)
EVIDENCE = {
    "rule": "request streams of 1-4 messages from the HTTP/1.x request grammar (methods, origin/absolute/authority/asterisk "
            "targets, 1.0/1.1, arbitrary token field names incl. underscore aliases and obs-text, none/Content-Length/chunked "
            "framing with extensions and trailers) with at most two labelled single-token mutations (%d labels), always "
            "followed by a valid probe request; sent through the whole simulated server under seeded segmentation and "
            "recv sizes; verdict per message from the three-valued reference R1 (self-checked against an independent "
            "strict parser); distinct = distinct history digest; non-trivial = the stream contained a mutated message "
            "or >= 2 messages" % len(reqgen.ALL_MUTATIONS),
    "real": common.REAL, "stub": common.STUB,
    "assumptions": [
        "R1 says ACCEPT/REJECT only where RFC 9112/9110 and the property text leave no choice; every legal-but-unusual input is EITHER (refusal or a listed alternative)",
        "a verdict is produced by the generator's derivation and cross-checked by an independent strict parser; a disagreement aborts the run as a harness error, never as a violation",
        "this is seeded sampling of inputs (group B in DESIGN.md): no claim about all strings; limits are left at their defaults (C06 owns limits)",
    ],
}


def gen(W):
    sc = {}
    sc["lookahead"] = W.choice([0, 1])
    sc["recv_bytes"] = W.choice([8192, 64, 9, 1], p0=0.5)
    sc["threads"] = W.choice([1, 2])
    sc["inbuf_overflow"] = W.choice([524288, 20, 20000])
    sc["use_poll"] = W.chance(0.2)
    n = 1 + W.draw(4)
    msgs = []
    nmut = 0
    for i in range(n):
        m = reqgen.gen_message(W, i, {"big_body": W.choice([2000, 30000], p0=0.8)})
        if nmut < 2 and W.chance(0.65 if nmut == 0 else 0.15):
            label = reqgen.pick_mutation(W, m)
            reqgen.apply_mutation(m, label, W)
            nmut += 1
        msgs.append(m)
    sc["msgs"] = msgs
    sc["cuts"] = common.cut_points(W, 2000, 4)
    sc["seg_delay"] = W.choice([0.0, 0.0003])
    sc["sched"] = {"kind": W.choice(["rtb", "walk"], p0=0.8), "gap_mean": 30}
    return sc


def ser(msgs):
    """JSON-safe form of the messages (bytes -> latin-1 str) for replay files"""
    def enc(x):
        if isinstance(x, bytes):
            return {"__b": x.decode("latin-1")}
        if isinstance(x, dict):
            return {k: enc(v) for k, v in x.items() if k not in ("raw", "rendered_fields")}
        if isinstance(x, (list, tuple)):
            return [enc(v) for v in x]
        if isinstance(x, set):
            return {"__s": sorted(x)}
        return x
    return enc(msgs)


def deser(x):
    if isinstance(x, dict):
        if "__b" in x and len(x) == 1:
            return x["__b"].encode("latin-1")
        if "__s" in x and len(x) == 1:
            return set(x["__s"])
        return {(int(k) if k.isdigit() else k): deser(v) for k, v in x.items()}
    if isinstance(x, list):
        return [deser(v) for v in x]
    return x


def fix_types(m):
    """after JSON: tuples for fields and verdict"""
    m["fields"] = [tuple(f) for f in m["fields"]]
    v = m.get("verdict")
    if v is not None:
        m["verdict"] = tuple(v)
    return m


def run_one(tapes, tier, scenario=None):
    if scenario is not None:
        sc = dict(scenario)
        sc["msgs"] = [fix_types(m) for m in deser(scenario["msgs"])]
    else:
        sc = gen(tapes.W)
    res = RunResult()
    try:
        msgs = [reqgen.finalize(m) for m in sc["msgs"]]
    except AssertionError as e:
        res.harness_error = str(e)
        res.digest = "selfcheck"
        res.stats = {"end": "selfcheck"}
        return res
    res.scenario = dict(sc)
    res.scenario["msgs"] = ser(sc["msgs"])
    verdicts, stream, probe_path = build_stream(msgs)
    knobs = dict(threads=sc["threads"], channel_request_lookahead=sc["lookahead"], recv_bytes=sc["recv_bytes"],
                 inbuf_overflow=sc["inbuf_overflow"], asyncore_use_poll=sc["use_poll"],
                 clear_untrusted_proxy_headers=False)
    sim = Simulation(tapes, knobs=knobs, net=NetConfig(), sched=sc["sched"], horizon=60.0)
    k = sim.k
    app = ScriptedApp(sim, {}, default={"chunks": [b"ok"], "cl": 2, "read_input": True, "keep_environ": True})
    sim.build(app)
    segs = common.split_chunks(stream, [c for c in sc["cuts"] if c < len(stream)])
    steps = []
    for i, s_ in enumerate(segs):
        if i and sc["seg_delay"]:
            steps.append(("sleep", sc["seg_delay"]))
        steps.append(("send", s_))
    sim.add_client(steps, cid=0)
    sim.run()
    judge(sim, app, msgs, res, k)
    if k.end_reason == "step_cap":
        res.harness_error = "step cap reached"
    if k.harness_error:
        res.harness_error = k.harness_error
    res.digest = k.digest()
    res.stats = common.base_stats(sim)
    res.stats["cells"] = [m["mutation"] or "canonical:%s/%s" % (m["framing"], m["target_form"]) for m in msgs]
    res.interleaving = k.switch_hash.hexdigest()
    res.nontrivial = len(msgs) >= 2 or any(m["mutation"] for m in msgs)
    s = sim.conns.get(0)
    res.sample = {"messages": [{"mutation": m["mutation"], "verdict": m["verdict"][0], "framing": m["framing"],
                                "raw": m["raw"][:160].decode("latin-1")} for m in msgs],
                  "recv_bytes": sc["recv_bytes"], "lookahead": sc["lookahead"], "cuts": sc["cuts"],
                  "app_calls": [c["environ"].get("REQUEST_URI") if c["environ"] else None for c in app.calls],
                  "wire_statuses": [r.status for r in parse_stream(s.wire, ["GET"] * 9, s.closed)[0]] if s else None,
                  "closed": s.closed if s else None}
    return res


PROBE = b"GET /probe-follow-up HTTP/1.1\r\nHost: example.com\r\n\r\n"


def build_stream(msgs):
    stream = b"".join(m["raw"] for m in msgs) + PROBE
    return [m["verdict"] for m in msgs], stream, "/probe-follow-up"


def judge(sim, app, msgs, res, k):
    s = sim.conns.get(0)
    wire = bytes(s.wire)
    rs, probs = parse_stream(wire, ["GET"] * (len(msgs) + 4), s.closed)
    finals = [r for r in rs if not r.interim]
    calls = list(app.calls)
    ci = 0
    ri = 0
    dead = None  # (message index, why)
    lp = common.log_problems(sim, patterns=("uncaptured python exception", "Unexpected exception", "Exception when servicing", "Exception while serving"))
    if lp:
        from .pipeline import exc_disc
        label = next((m["mutation"] for m in msgs if m["mutation"]), "canonical")
        res.v("escaped_exception", exc_disc(lp[0]) + ":" + str(label), "input made the server raise: %s\n%s" % (lp[0][1], lp[0][2]))

    def uri(c):
        return c["environ"].get("REQUEST_URI") if c["environ"] else None

    for i, m in enumerate(msgs):
        V = m["verdict"]
        label = m["mutation"] or "canonical"
        r = finals[ri] if ri < len(finals) else None
        if r is None:
            if not s.closed and V[0] == "EITHER" and "may_wait" in V[1]["dontcare"]:
                dead = (i, "persistence unspecified")
                break
            if not s.closed:
                res.v("unanswered", label, "message %d (%s, verdict %s) got no response and the connection is still open (end=%s); raw %r" % (
                    i, label, V[0], k.end_reason, m["raw"][:120]))
            else:
                if V[0] == "ACCEPT":
                    res.v("refused_valid", label + ":silent_close", "message %d (%s) is canonical but the connection was closed without a response; raw %r" % (i, label, m["raw"][:120]))
                elif V[0] in ("REJECT",):
                    res.v("no_error_response", label, "message %d (%s) must be refused with an error response, the connection was closed without one; raw %r" % (i, label, m["raw"][:120]))
            dead = (i, "no response")
            break
        ri += 1
        refused = r.status in REFUSE and b"generated by" in r.body
        if refused:
            if V[0] == "ACCEPT":
                res.v("refused_valid", label, "message %d (%s) is canonical but was refused with %d: %r; raw %r" % (
                    i, label, r.status, r.body[:80], m["raw"][:160]))
            if not r.complete:
                res.v("error_response", label + ":incomplete", "error response %d is not complete" % r.status)
            dead = (i, "refused %d" % r.status)
            break
        if r.status != 200:
            res.v("unexpected_status", label, "message %d answered %r" % (i, r.status))
            dead = (i, "status")
            break
        # served by the application
        c = calls[ci] if ci < len(calls) else None
        ci += 1
        if V[0] == "REJECT":
            res.v("accepted_malformed", label, "message %d carries mutation %s and must be refused, but the application was called (%s %s, body %r...); raw %r" % (
                i, label, c["method"] if c else None, uri(c) if c else None, (c["input"] or b"")[:40] if c else None, m["raw"][:200]))
            dead = (i, "accepted malformed")
            break
        if c is None:
            res.v("phantom_response", label, "200 response without an application call for message %d" % i)
            break
        exp = reqgen.expected(m)
        dontcare = V[1]["dontcare"] if V[0] == "EITHER" else set()
        env = c["environ"] or {}
        if "method" not in dontcare and env.get("REQUEST_METHOD") != exp["method"].upper():
            res.v("wrong_content", label + ":method", "message %d: REQUEST_METHOD %r, sent %r" % (i, env.get("REQUEST_METHOD"), exp["method"]))
        if "target" not in dontcare and env.get("REQUEST_URI") != exp["target"]:
            res.v("wrong_content", label + ":target", "message %d: REQUEST_URI %r, sent %r" % (i, env.get("REQUEST_URI"), exp["target"]))
        if "body" not in dontcare and (c["input"] or b"") != exp["body"]:
            res.v("wrong_content", label + ":body", "message %d (%s): application read %d body bytes %r..., the message's body is %d bytes %r...; raw %r" % (
                i, label, len(c["input"] or b""), (c["input"] or b"")[:50], len(exp["body"]), exp["body"][:50], m["raw"][:200]))
        if "fields" not in dontcare:
            got = {}
            for kk, vv in env.items():
                if kk.startswith("HTTP_"):
                    got[kk[5:]] = vv
                elif kk in ("CONTENT_TYPE", "CONTENT_LENGTH"):
                    got[kk] = vv
            want = dict(exp["fields"])
            if m["framing"] == "none" and "CONTENT_LENGTH" not in want:
                got.pop("CONTENT_LENGTH", None)
            if got != want:
                diff = {kk: (got.get(kk), want.get(kk)) for kk in set(got) | set(want) if got.get(kk) != want.get(kk)}
                res.v("wrong_content", label + ":fields", "message %d (%s): header fields differ (got, expected): %r; raw %r" % (i, label, diff, m["raw"][:200]))
        # persistence
        if V[0] == "ACCEPT":
            mc = V[1]
        else:
            mc = V[1]["must_close"]
            if mc is None and "version" not in dontcare:
                mc = reqgen.base_must_close(m)
        if mc is True:
            dead = (i, "must close")
            # nothing may follow
            if ri < len(finals) or ci < len(calls):
                nxt = finals[ri] if ri < len(finals) else None
                res.v("reused_after_must_close", label, "message %d (%s) requires the connection to be closed after it, but the server went on: next response %r, further application calls %r; raw %r" % (
                    i, label, nxt.status if nxt else None, [uri(x) for x in calls[ci:]], m["raw"][:200]))
            elif not s.closed:
                res.v("reused_after_must_close", label + ":left_open", "message %d (%s) requires closing, connection still open at the end" % (i, label))
            break
        if mc is None:
            # persistence not determined by the verdict: stop comparing here
            dead = (i, "persistence unspecified")
            break
    else:
        # every message accepted and persistent: the probe must be served
        r = finals[ri] if ri < len(finals) else None
        c = calls[ci] if ci < len(calls) else None
        if r is None or r.status != 200 or c is None or uri(c) != "/probe-follow-up":
            res.v("follow_up_lost", msgs[-1]["mutation"] or "canonical", "all %d messages were accepted as persistent but the follow-up request was not served: response %r, call %r, closed=%s, problems %r" % (
                len(msgs), r.status if r else None, uri(c) if c else None, s.closed, probs))
        ci += 1
        ri += 1
    if dead is not None and dead[1] != "persistence unspecified":
        # nothing behind a refused / closing message may reach the application
        extra = calls[ci:]
        if extra and not any(v.clause == "reused_after_must_close" for v in res.violations):
            label = msgs[dead[0]]["mutation"] or "canonical"
            res.v("executed_behind_dead_point", label, "after message %d (%s) nothing may execute, yet the application was called for %r" % (
                dead[0], dead[1], [uri(x) for x in extra]))
        if dead[1].startswith("refused") and not s.closed:
            res.v("not_closed_after_refusal", msgs[dead[0]]["mutation"] or "canonical", "connection still open after the error response")
