"""C04 - pipelined requests: in order, exactly once, never mixed, under every schedule."""
from sim.runner import RunResult
from . import common, pipeline

PROPERTY = "C04"
LEVEL = "exploration"
BUDGET = {"quick": 60, "thorough": 600}
EVIDENCE = {
    "rule": "each run = 1-2 connections with pipelines of 1-8 requests (bodies, chunked, Expect, "
            "Connection: close, HTTP/1.0 keep-alive drawn per request), 1-3 workers, lookahead 0-2, seeded partial sends / "
            "short reads, seeded scheduler arm (run-to-block, random walk over sync points or source "
            "lines, targeted delay); distinct = distinct history digest; non-trivial = some connection "
            "carried >= 2 requests and > 4 context switches happened",
    "real": common.REAL, "stub": common.STUB,
    "assumptions": [
        "pre-emption granularity is lock/socket/pipe/clock operations plus (in traced runs) source lines of channel/task/server/wasyncore/trigger/buffers; C-level operations are atomic as under the GIL",
        "fake TCP: level-triggered readiness, send accepts 1..free bytes, no loss or reordering",
        "the application always declares an exact Content-Length, so every response keeps the connection open unless the request asked to close",
    ],
}
OPTS = {"p_v10": 0.08, "p_halfclose": 0.1, "p_late_body": 0.3, "p_expect_run": 0.45, "p_blank": 0.15}


def run_one(tapes, tier, scenario=None):
    sc = scenario if scenario is not None else pipeline.gen_scenario(tapes.W, OPTS)
    res = RunResult()
    res.scenario = sc
    ctx = pipeline.build(tapes, sc, horizon=60.0)
    pipeline.install_idle_stop(ctx)
    ctx.sim.run()
    pipeline.check_pipeline(ctx, res)
    return pipeline.finish(ctx, res)
