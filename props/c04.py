"""C04 - pipelined requests: in order, exactly once, never mixed, under every schedule."""
from sim.harness import Simulation
from sim.shims import NetConfig
from sim.runner import RunResult
from models.r2_response import parse_stream
from . import common
from .common import ScriptedApp, build_request, token_body

PROPERTY = "C04"
LEVEL = "exploration"
BUDGET = {"quick": 40, "thorough": 600}
EVIDENCE = {
    "rule": "each run = 1-2 connections with pipelines of 1-8 requests (bodies, chunked, Expect, "
            "Connection: close drawn per request), 1-3 workers, lookahead 0-2, seeded partial sends / "
            "short reads, seeded scheduler arm (run-to-block, random walk over sync points or source "
            "lines, targeted delay); distinct = distinct history digest; non-trivial = some connection "
            "carried >= 2 requests and >= 1 context switch happened while an application call was in progress",
    "real": common.REAL, "stub": common.STUB,
    "assumptions": [
        "pre-emption granularity is lock/socket/pipe/clock operations plus (in traced runs) source lines of channel/task/server/wasyncore/trigger/buffers; C-level operations are atomic as under the GIL",
        "fake TCP: level-triggered readiness, send accepts 1..free bytes, no loss or reordering",
        "the application always declares an exact Content-Length, so every response keeps the connection open unless the request asked to close",
    ],
}


def gen_scenario(W, tier):
    sc = {}
    sc["threads"] = 1 + W.draw(3)
    sc["lookahead"] = W.choice([0, 1, 2])
    sc["recv_bytes"] = W.choice([8192, 64, 7, 1], p0=0.5)
    sc["send_bytes"] = W.choice([18000, 1000, 9, 1])
    sc["sendbuf_len"] = W.choice([8192, 512, 64, 8])
    sc["sndbuf_cap"] = W.choice([65536, 4096, 300, 40])
    sc["outbuf_overflow"] = W.choice([1048576, 8192, 100, 1])
    sc["inbuf_overflow"] = W.choice([524288, 8192, 10])
    sc["watermark"] = W.choice([16777216, 20000])
    sc["p_partial"] = W.choice([0.0, 0.3, 0.8])
    sc["p_short"] = W.choice([0.0, 0.3])
    sc["use_poll"] = W.chance(0.3)
    sc["expect_ok"] = W.chance(0.35) and not __import__("os").environ.get("NOEXPECT")
    nconn = 1 + W.draw(2, p0=0.7)
    conns = []
    for cid in range(nconn):
        nreq = 1 + W.draw(8)
        reqs = []
        for r in range(nreq):
            kind = W.weighted([5, 2, 2])  # GET / POST-CL / POST-chunked
            q = {"kind": kind}
            u = min(sc["sendbuf_len"], sc["sndbuf_cap"])
            q["resp_size"] = W.choice([5, 0, u - 1, u + 3, 3 * u + 1, 12 * u, 40 * u], p0=0.3)
            q["resp_chunks"] = 1 + W.draw(3)
            q["app_sleep"] = W.choice([0, 0.0001, 0.01], p0=0.6)
            q["gen"] = W.chance(0.3)
            if kind:
                rb = sc["recv_bytes"]
                q["body_size"] = W.choice([3, 0, 50, rb + 1, 5 * rb + 2, min(9000, 30 * rb)], p0=0.4)
                q["expect"] = sc["expect_ok"] and W.chance(0.4)
            q["close"] = W.chance(0.06)
            reqs.append(q)
        cuts = common.cut_points(W, 400 * nreq, 3)
        conns.append({"reqs": reqs, "cuts": cuts, "seg_delay": W.choice([0.0, 0.0005, 0.02]),
                      "reader": W.weighted([6, 2]), "start": W.choice([0.0, 0.001])})
    sc["conns"] = conns
    sc["sched"], sc["trace"] = common.draw_sched(W)
    return sc


def run_one(tapes, tier):
    W = tapes.W
    sc = gen_scenario(W, tier)
    res = RunResult()
    knobs = dict(
        threads=sc["threads"], channel_request_lookahead=sc["lookahead"], recv_bytes=sc["recv_bytes"],
        send_bytes=sc["send_bytes"], outbuf_overflow=sc["outbuf_overflow"],
        inbuf_overflow=sc["inbuf_overflow"], outbuf_high_watermark=sc["watermark"],
        asyncore_use_poll=sc["use_poll"],
    )
    net = NetConfig(sendbuf_len=sc["sendbuf_len"], sndbuf_cap=sc["sndbuf_cap"],
                    p_partial_send=sc["p_partial"], p_short_read=sc["p_short"])
    sim = Simulation(tapes, knobs=knobs, net=net, sched=sc["sched"], trace=sc["trace"],
                     horizon=60.0, stop_at_idle=True)
    scripts = {}
    expected = {}
    streams = {}
    for cid, c in enumerate(sc["conns"]):
        exp = []
        stream = b""
        for r, q in enumerate(c["reqs"]):
            body = token_body(cid, r, q["resp_size"])
            n = q["resp_chunks"]
            step = max(1, len(body) // n)
            chunks = common.split_chunks(body, [step * i for i in range(1, n)])
            script = {"chunks": chunks, "cl": len(body), "kind": "gen" if q["gen"] or q["app_sleep"] else "list"}
            if q["app_sleep"]:
                script["sleeps"] = {0: q["app_sleep"]}
            path = "/c%d/r%d" % (cid, r)
            hdrs = [("Host", "sim")]
            method = "GET"
            rb = None
            if q["kind"]:
                method = "POST"
                rb = token_body(cid + 10, r, q["body_size"])
                script["read_input"] = True
                if q.get("expect"):
                    hdrs.append(("Expect", "100-continue"))
            if q["close"]:
                hdrs.append(("Connection", "close"))
            scripts[path] = script
            stream += build_request(method, path, "1.1", hdrs, rb, chunked=(q["kind"] == 2),
                                    chunk_sizes=[max(1, len(rb) // 2)] if rb else None)
            exp.append({"path": path, "method": method, "body": body, "reqbody": rb or b"",
                        "close": q["close"]})
            if q["close"]:
                break
        expected[cid] = exp
        streams[cid] = stream
    app = ScriptedApp(sim, scripts)
    sim.build(app)
    for cid, c in enumerate(sc["conns"]):
        stream = streams[cid]
        cuts = [x for x in c["cuts"] if x < len(stream)]
        segs = common.split_chunks(stream, cuts)
        steps = []
        if c["reader"] == 1:
            steps.append(("mode", "slow", max(7, sc["sndbuf_cap"] // 2) + cid, 0.0003))
        for i, s in enumerate(segs):
            if i and c["seg_delay"]:
                steps.append(("sleep", c["seg_delay"]))
            steps.append(("send", s))
        sim.add_client(steps, cid=cid, start=c["start"])

    k = sim.k
    state = {"switch_in_app": 0}

    def all_done():
        for cid, exp in expected.items():
            s = sim.conns.get(cid)
            if s is None:
                return False
            rs, probs = parse_stream(s.wire, [e["method"] for e in exp], s.closed)
            finals = [r for r in rs if not r.interim]
            if probs or len(finals) < len(exp) or not all(r.complete for r in finals):
                return False
        return True

    def on_idle(k, quiescent):
        if all_done():
            return "stop"
        return "continue"

    k.on_idle = on_idle
    base_sw = [0]

    sim.run()

    # ---------------------------------------------------------------- oracle
    for cid, exp in expected.items():
        s = sim.conns.get(cid)
        calls = common.calls_of(app, cid)
        # exactly once, in order
        paths = [c["path"] for c in calls]
        want = [e["path"] for e in exp]
        if paths != want:
            if len(paths) > len(set(paths)):
                res.v("exactly_once", "duplicate_call", "conn %d: application calls %r, expected %r" % (cid, paths, want))
            elif paths == want[:len(paths)]:
                res.v("all_served", "missing_call", "conn %d: application calls %r, expected %r (end=%s)" % (cid, paths, want, k.end_reason))
            else:
                res.v("order", "wrong_order", "conn %d: application calls %r, expected %r" % (cid, paths, want))
        for c, e in zip(calls, exp):
            if e["method"] == "POST" and c["input"] != e["reqbody"]:
                res.v("request_body", "body_mismatch", "conn %d req %d: wsgi.input %r... != sent %r..." % (
                    cid, c["ridx"], (c["input"] or b"")[:40], e["reqbody"][:40]))
        if s is None:
            continue
        rs, probs = parse_stream(s.wire, [e["method"] for e in exp], s.closed)
        finals = [r for r in rs if not r.interim]
        if probs:
            res.v("wire", "unparseable:" + probs[0][0], "conn %d: client-side parser: %r; wire[%d] tail %r" % (
                cid, probs, len(s.wire), bytes(s.wire[-80:])))
        for i, (r, e) in enumerate(zip(finals, exp)):
            if r.status != 200 or r.body != e["body"]:
                res.v("wire", "wrong_body", "conn %d response %d: status %s body[%d] %r..., expected body[%d] %r..." % (
                    cid, i, r.status, len(r.body), r.body[:50], len(e["body"]), e["body"][:50]))
                break
        if not probs and len(finals) != len(exp):
            res.v("wire", "response_count", "conn %d: %d final responses for %d requests (end=%s)" % (
                cid, len(finals), len(exp), k.end_reason))
    if app.overlap:
        res.v("one_at_a_time", "overlap", "two application calls in progress on one connection: %r" % (app.overlap[:3],))
    lp = common.log_problems(sim)
    if lp:
        res.v("escaped_exception", lp[0][1].split(" ")[0][:20], "server logged: %s\n%s" % (lp[0][1], lp[0][2]))
    for t in sim.final_threads:
        if t[3] is not None:
            res.v("thread_died", t[0], "thread %s died with %s" % (t[0], t[3]))
    if k.end_reason in ("step_cap",):
        res.harness_error = "step cap reached"
    if k.harness_error:
        res.harness_error = k.harness_error

    res.digest = k.digest()
    res.stats = common.base_stats(sim)
    res.interleaving = k.switch_hash.hexdigest()
    res.nontrivial = any(len(e) >= 2 for e in expected.values()) and k.switches > 4
    res.sample = {
        "knobs": {kk: sc[kk] for kk in ("threads", "lookahead", "recv_bytes", "send_bytes", "sendbuf_len", "sndbuf_cap", "p_partial", "use_poll")},
        "sched": sc["sched"], "trace": sc["trace"],
        "pipelines": [[("%s%s%s" % (e["method"], " close" if e["close"] else "", " body=%d" % len(e["reqbody"]) if e["reqbody"] else ""), len(e["body"])) for e in exp] for exp in expected.values()],
        "switches": k.switches, "steps": k.steps, "end": k.end_reason,
    }
    return res
