"""C13 - client faults are contained; teardown happens once, on the I/O thread only."""
import errno

from sim.harness import Simulation
from sim.shims import NetConfig
from sim.runner import RunResult
from sim.tape import Tapes
from models.r2_response import parse_stream
from . import common
from .common import ScriptedApp, build_request, token_body

PROPERTY = "C13"
LEVEL = "fault_enumeration"
BUDGET = {"quick": 40, "thorough": 540}
# one evaluation of this family is a whole enumeration (hundreds of simulated runs, each compared in the
# determinism self-test): fewer seeds than the default 6 / 40 already compare thousands of runs
SELFTEST_N = {"quick": 2, "thorough": 10}
RECV_ERRS = ["ECONNRESET", "ENOTCONN", "EBADF", "EINVAL", "ETIMEDOUT", "EAGAIN", "EOF", "FIN"]  # EAGAIN = spurious readiness
SEND_ERRS = ["EPIPE", "ECONNRESET", "ENOTCONN", "EBADF", "EINVAL", "EHOSTUNREACH", "RST"]
ACCEPT_ERRS = ["ECONNABORTED", "EMFILE", "EINVAL"]
SETUP_ERRS = ["EBADF", "EINVAL", "ENOTCONN"]
SETUP_OPS = ["setsockopt", "getsockopt", "setblocking"]
EVIDENCE = {
    "rule": "scenario = 2-4 connections (victim with a 1-3 request pipeline incl. bodies / Expect / large responses, "
            "bystanders with pipelines in flight), seeded knobs and scheduler arm; a fault-free reference run counts the "
            "victim's recv/send/accept/set-up calls, then EVERY single-fault placement (call index x errno, plus "
            "persistent reset from the n-th send and half-close from the n-th recv) is run, plus sampled two-fault "
            "placements; after the scenario settles a probe connection is opened and must be served; one evaluation = one "
            "placement run; distinct = distinct history digest; non-trivial = the fault actually fired while the victim "
            "had a request in flight or output pending",
    "real": common.REAL, "stub": common.STUB,
    "assumptions": [
        "single-fault placements are enumerated completely for each generated scenario within the call counts of its fault-free run (a placement whose call never happens does not fire and is counted as such)",
        "an accepted socket that is dropped without close() is accepted as released only because real sockets close in their finaliser",
        "thread identity is recorded at the fake socket's close() and at every mutation of the socket map",
    ],
}
E = {n: getattr(errno, n) for n in set(RECV_ERRS + SEND_ERRS + ACCEPT_ERRS + SETUP_ERRS) if hasattr(errno, n)}


def gen(W):
    sc = {}
    sc["threads"] = 1 + W.draw(3)
    sc["lookahead"] = W.choice([0, 1, 2])
    sc["recv_bytes"] = W.choice([8192, 64, 16], p0=0.5)
    sc["send_bytes"] = W.choice([18000, 1])
    sc["sendbuf_len"] = W.choice([8192, 256, 64])
    sc["sndbuf_cap"] = W.choice([65536, 600, 150])
    sc["use_poll"] = W.chance(0.4)
    sc["log_socket_errors"] = W.chance(0.7)
    sc["watermark"] = W.choice([16777216, 200])
    nconn = 2 + W.draw(3, p0=0.5)
    conns = []
    for cid in range(nconn):
        reqs = []
        for r in range(1 + W.draw(3)):
            u = sc["sendbuf_len"]
            q = {"kind": W.weighted([4, 2, 1, 1]),  # GET / POST / POST-chunked / malformed (server-generated 400)
                 "resp": W.choice([5, u + 3, 3 * u + 1, 8 * u], p0=0.3),
                 "body": W.choice([3, 40, 3 * sc["recv_bytes"] + 1 if sc["recv_bytes"] < 100 else 300]),
                 "sleep": W.choice([0, 0.0003, 0.005], p0=0.6),
                 "gen": W.chance(0.4), "expect": W.chance(0.15)}
            reqs.append(q)
        conns.append({"reqs": reqs, "start": W.choice([0.0, 0.0002, 0.003]),
                      "cut": W.draw(200), "seg_delay": W.choice([0.0, 0.001]),
                      "reader": W.weighted([5, 2])})
        # a client that waits for the go-ahead: the second request asks for 100-continue and its body is held back
        # until the interim response arrives (or 20 ms pass) - the interim then often has to be sent by the worker
        # that finishes the first request
        conns[-1]["hold_body"] = W.chance(0.3)
        if conns[-1]["hold_body"] and len(reqs) >= 2:
            reqs[1]["kind"] = reqs[1]["kind"] if reqs[1]["kind"] in (1, 2) else 1
            reqs[1]["expect"] = True
            if reqs[0]["kind"] == 3:
                reqs[0]["kind"] = 0
            reqs[0]["sleep"] = reqs[0]["sleep"] or 0.0003
    sc["conns"] = conns
    sc["victim"] = W.draw(nconn)
    sc["sched"], sc["trace"] = common.draw_sched(W, walk_p=0.6)
    sc["sub_seed"] = W.draw(1 << 30)
    sc["pairs"] = 6
    return sc


def one_run(sc, placements, sub_id):
    """run the scenario with the given fault placements; returns (violations, info)"""
    tapes = Tapes(sc["sub_seed"], "C13sub", sub_id)
    knobs = dict(threads=sc["threads"], channel_request_lookahead=sc["lookahead"], recv_bytes=sc["recv_bytes"],
                 send_bytes=sc["send_bytes"], asyncore_use_poll=sc["use_poll"],
                 log_socket_errors=sc["log_socket_errors"], outbuf_high_watermark=sc["watermark"])
    net = NetConfig(sendbuf_len=sc["sendbuf_len"], sndbuf_cap=sc["sndbuf_cap"])
    sim = Simulation(tapes, knobs=knobs, net=net, sched=sc["sched"], trace=sc["trace"], horizon=80.0)
    k = sim.k
    scripts = {}
    expected = {}
    streams = {}
    hold_at = {}
    for cid, c in enumerate(sc["conns"]):
        exp = []
        stream = b""
        for r, q in enumerate(c["reqs"]):
            body = token_body(cid, r, q["resp"])
            path = "/c%d/r%d" % (cid, r)
            script = {"chunks": common.split_chunks(body, [len(body) // 2]) if q["gen"] else [body],
                      "cl": len(body), "kind": "gen" if (q["gen"] or q["sleep"]) else "list"}
            if q["sleep"]:
                script["sleeps"] = {0: q["sleep"]}
            hdrs = [("Host", "s")]
            rb = None
            method = "GET"
            if q["kind"] == 3:
                # a request the parser refuses before it has a path: answered by the error task, connection closed
                stream += b"GET %s HTTP/1.1\r\nHost: s\r\nNo Colon Here\r\n\r\n" % path.encode()
                exp.append({"path": None, "method": "GET", "body": None, "reqbody": b"", "status": 400})
                break
            if q["kind"]:
                method = "POST"
                rb = token_body(cid + 20, r, q["body"])
                script["read_input"] = True
                if q["expect"]:
                    hdrs.append(("Expect", "100-continue"))
            scripts[path] = script
            raw = build_request(method, path, "1.1", hdrs, rb, chunked=(q["kind"] == 2))
            if r == 1 and c.get("hold_body") and q["kind"] in (1, 2) and q["expect"]:
                hold_at[cid] = len(stream) + raw.index(b"\r\n\r\n") + 4
            stream += raw
            exp.append({"path": path, "method": method, "body": body, "reqbody": rb or b"", "status": 200})
        expected[cid] = exp
        streams[cid] = stream
    scripts["/probe"] = {"chunks": [b"probe-ok"], "cl": 8}
    app = ScriptedApp(sim, scripts)
    sim.build(app)
    victim = sc["victim"]
    lst = sim.listeners[0]
    fired_ctx = []
    for p in placements:
        op, idx, en = p
        if op == "client":
            continue  # client-side behaviours are added to the victim's script below
        if op == "accept":
            lst.faults[("accept", idx)] = E[en]
        elif en == "RST":
            sim.add_fault(victim, "send", idx, -1)
        elif en == "FIN":
            sim.add_fault(victim, "recv", idx, -2)
        elif en == "EOF":
            sim.add_fault(victim, "recv", idx, 0)
        else:
            sim.add_fault(victim, op, idx, E[en])
    for cid, c in enumerate(sc["conns"]):
        stream = streams[cid]
        cut = c["cut"] % max(1, len(stream))
        steps = []
        if c["reader"] == 1:
            steps.append(("mode", "slow", max(16, sc["sndbuf_cap"] // 2), 0.0004))
        if cid in hold_at and hold_at[cid] < len(stream):
            h = hold_at[cid]
            steps += [("send", stream[:h]), ("wait", ("contains", b"100 Continue"), 0.02), ("send", stream[h:])]
        elif 0 < cut < len(stream):
            steps += [("send", stream[:cut])]
            if c["seg_delay"]:
                steps.append(("sleep", c["seg_delay"]))
            steps.append(("send", stream[cut:]))
        else:
            steps.append(("send", stream))
        if cid == victim and any(p[0] == "client" for p in placements):
            for p in placements:
                if p[0] == "client" and p[2] == "OOB+FIN":
                    # an urgent byte followed by a half-close: the descriptor is readable (EOF) and in the
                    # exceptional set in the same poll pass
                    steps += [("sleep", 0.0001 * (1 + p[1])), ("oob",), ("fin",)]
                elif p[0] == "client" and p[2] == "OOB+RST":
                    steps += [("sleep", 0.0001 * (1 + p[1])), ("oob",), ("rst",)]
        sim.add_client(steps, cid=cid, start=c["start"])
    state = {"probe": None}

    def on_idle(k, quiescent):
        if state["probe"] is None:
            state["probe"] = sim.add_client([("send", build_request("GET", "/probe", "1.1", [("Host", "s")]))], cid=99, start=0.001)
            return "injected"
        s = sim.conns.get(99)
        if s is not None and len(s.wire) > 0 and b"probe-ok" in s.wire:
            return "stop"
        return "continue"

    k.on_idle = on_idle
    snap = {}

    def on_finish(k):
        snap["map"] = sorted(k.fdn(fd) for fd in sim.map.keys())
        snap["listener_in_map"] = lst.fd in sim.map
        snap["trigger_closed"] = sim.server.trigger._closed
        snap["active"] = sorted(k.fdn(fd) for fd in sim.server.active_channels.keys())
        snap["open_fds"] = sorted(k.fdn(fd) for fd in k.fds.keys())
        ch = sim.chan_by_cid.get(victim)
        if ch is not None and not hasattr(ch, "requests"):
            ch = None  # constructor failed half-way: no channel exists
        snap["victim_chan"] = None if ch is None else {"connected": ch.connected, "in_map": ch._fileno in sim.map if ch._fileno is not None else False,
                                                      "will_close": ch.will_close, "pending": ch.total_outbufs_len, "requests": len(ch.requests)}

    k.on_finish = on_finish
    sim.run()

    viols = []

    def v(clause, disc, msg):
        viols.append((clause, disc, "placement %r: %s" % (placements, msg)))

    tag = "+".join(("setup:%s" % p[0]) if p[0] in SETUP_OPS else "%s:%s" % (p[0], p[2]) for p in placements) or "none"
    fired = sum(1 for e in k.history if e[2] in ("fault", "c_oob"))
    # 1. loop alive, listener alive, probe served
    io = [t for t in sim.final_threads if t[0] == "io"][0]
    if not io[2] or io[3] is not None:
        v("loop_died", tag, "I/O thread is gone (alive=%s exc=%s); map=%r" % (io[2], io[3], snap.get("map")))
    if lst.closed or lst.close_log:
        v("listener_closed", tag, "listening socket was closed by %r" % (lst.close_log,))
    elif not snap.get("listener_in_map"):
        v("listener_unmapped", tag, "listening socket no longer polled; map=%r" % (snap.get("map"),))
    if snap.get("trigger_closed"):
        v("trigger_closed", tag, "wake-up pipe was closed")
    ps = sim.conns.get(99)
    if ps is None or b"probe-ok" not in ps.wire:
        if not viols:
            v("probe_unserved", tag, "a connection opened after the fault was not served (refused=%s, wire=%r, end=%s)" % (
                getattr(state["probe"], "refused", None), bytes(ps.wire[:60]) if ps else None, k.end_reason))
    # 2. workers
    for t in sim.final_threads:
        if t[1] == "worker" and (not t[2] or t[3] is not None):
            v("worker_died", tag, "worker %s alive=%s exc=%s" % (t[0], t[2], t[3]))
        elif t[2] and str(t[4] or "").startswith("sock."):
            # the server's sockets are non-blocking: a thread asleep inside send()/recv() is a thread a client took away
            v("thread_stuck", "blocked_in_" + str(t[4]), "thread %s is asleep inside a socket call (%s) at the end of the run" % (t[0], t[4]))
    # 3. teardown by the I/O thread only
    for cid, s in sim.conns.items():
        for seq, who in s.close_log:
            if who != "io":
                v("close_by_worker", tag, "socket of conn %s closed by thread %s" % (cid, who))
        if len(s.close_log) > 1:
            v("closed_twice", tag, "socket of conn %s closed %d times" % (cid, len(s.close_log)))
    for seq, who, op, fd in sim.map.mutations:
        if who not in ("io", "-"):
            v("map_mutated_by_worker", tag, "socket map %s(%s) by thread %s" % (op, fd, who))
            break
    if sim.select.stale_fd_seen or any(e[2] == "poll" and any(ev & 32 for _, ev in e[3]) for e in k.history):
        v("stale_descriptor_polled", tag, "the poll set contained a closed descriptor")
    # 4. victim released - or, if the server shrugged a transient error off, fully served
    vs = sim.conns.get(victim)
    victim_fault = [p for p in placements if p[0] in ("recv", "send", "getsockopt", "setsockopt", "setblocking", "client")]

    def fully_served(cid):
        s = sim.conns.get(cid)
        exp = expected[cid]
        if s is None:
            return False
        rs, probs = parse_stream(s.wire, [e["method"] for e in exp], s.closed)
        finals = [r for r in rs if not r.interim]
        return (not probs and len(finals) == len(exp)
                and all(r.status == e["status"] and (e["body"] is None or r.body == e["body"]) for r, e in zip(finals, exp)))

    if vs is not None and victim_fault and fired:
        vc = snap.get("victim_chan")
        if vs.accepted_seq is not None and not vs.closed and not fully_served(victim):
            setup = any(p[0] in SETUP_OPS for p in placements)
            if setup and vc is None:
                # constructor failed: the accepted socket object was dropped; accepted if nothing references it
                if k.fdn(vs.fd) in snap.get("map", []):
                    v("victim_not_released", tag, "faulted connection still polled")
            else:
                v("victim_not_released", tag, "faulted connection neither torn down nor served: channel %r end=%s" % (vc, k.end_reason))
        if vs.closed and vc is not None and vc.get("in_map"):
            v("victim_not_released", tag, "faulted connection's channel still in the socket map: %r" % (vc,))
    if sim.temp_unclosed:
        v("tempfile_leak", tag, "%d temporary file(s) left open" % sim.temp_unclosed)
    # 5. bystanders undisturbed
    for cid, exp in expected.items():
        if cid == victim and (victim_fault or True) and placements:
            if any(p[0] != "accept" for p in placements):
                continue
        s = sim.conns.get(cid)
        if s is None:
            v("bystander", tag, "conn %d never connected" % cid)
            continue
        rs, probs = parse_stream(s.wire, [e["method"] for e in exp], s.closed)
        finals = [r for r in rs if not r.interim]
        if probs or len(finals) != len(exp) or any(r.status != e["status"] or (e["body"] is not None and r.body != e["body"]) for r, e in zip(finals, exp)):
            v("bystander_disturbed", tag, "conn %d: %d/%d responses, parser problems %r, statuses %r, end=%s" % (
                cid, len(finals), len(exp), probs, [r.status for r in finals], k.end_reason))
        calls = [c["path"] for c in common.calls_of(app, cid)]
        if calls != [e["path"] for e in exp if e["path"] is not None]:
            v("bystander_disturbed", tag + ":calls", "conn %d: calls %r" % (cid, calls))
    lp = common.log_problems(sim, patterns=("Exception when servicing",))
    if lp:
        from .pipeline import exc_disc
        v("exception_in_worker", exc_disc(lp[0]), "server logged: %s\n%s" % (lp[0][1], lp[0][2]))
    herr = None
    if k.end_reason == "step_cap":
        herr = "step cap"
    if k.harness_error:
        herr = k.harness_error
    # was the fault inside an in-flight operation?
    inflight = False
    for e in k.history:
        if e[2] == "fault":
            inflight = True
    calls = {op: (vs.calls.get(op, 0) if vs is not None else 0) for op in ("recv", "send", "getsockopt", "setsockopt", "setblocking")}
    calls["accept"] = lst.calls.get("accept", 0)
    info = {"digest": k.digest(), "fired": fired, "calls": calls, "stats": common.base_stats(sim), "herr": herr,
            "end": k.end_reason, "inter": k.switch_hash.hexdigest()}
    return viols, info


def all_single_placements(calls):
    out = []
    for i in range(min(calls["recv"], 12)):
        for en in RECV_ERRS:
            out.append(("recv", i, en))
    for i in range(min(calls["send"], 16)):
        for en in SEND_ERRS:
            out.append(("send", i, en))
    for i in range(min(calls["accept"], 6)):
        for en in ACCEPT_ERRS:
            out.append(("accept", i, en))
    for op in SETUP_OPS:
        for i in range(min(calls[op], 1)):
            for en in SETUP_ERRS:
                out.append((op, i, en))
    for i in range(3):
        out.append(("client", i, "OOB+FIN"))
        out.append(("client", i, "OOB+RST"))
    return out


def run_one(tapes, tier, scenario=None):
    W = tapes.W
    sc = scenario if scenario is not None else gen(W)
    res = RunResult()
    res.scenario = sc
    subs = []
    only = sc.get("only_placement")
    stats_acc = None
    if only is not None:
        todo = [(only["id"], [tuple(p) for p in only["placements"]])]
    else:
        v0, info0 = one_run(sc, [], 0)
        for clause, disc, msg in v0:
            res.v(clause, "faultfree:" + disc, msg)
        subs.append(info0)
        singles = all_single_placements(info0["calls"])
        todo = [(1 + i, [p]) for i, p in enumerate(singles)]
        # sampled pairs
        n = len(singles)
        if n >= 2:
            import random
            rr = random.Random(sc["sub_seed"])
            for j in range(sc.get("pairs", 6)):
                a, b = rr.sample(singles, 2)
                todo.append((10000 + j, [a, b]))
    first_bad = None
    import os, time
    dl = float(os.environ.get("VERIF_RUN_DEADLINE", "0") or 0)
    for sid, pl in todo:
        if dl and time.time() > dl:
            break
        viols, info = one_run(sc, pl, sid)
        subs.append(info)
        if info["herr"]:
            res.harness_error = info["herr"]
        for clause, disc, msg in viols:
            res.v(clause, disc, msg)
            if first_bad is None:
                first_bad = {"id": sid, "placements": [list(p) for p in pl]}
        if len(res.violations) > 12:
            break
    if first_bad is not None and only is None:
        sc2 = dict(sc)
        sc2["only_placement"] = first_bad
        res.scenario = sc2
        # keep only the violations of that placement so that the replay reproduces the same signatures first
    import hashlib
    res.digest = hashlib.sha256("".join(s["digest"] for s in subs).encode()).hexdigest()
    agg = {"steps": 0, "switches": 0, "sim_seconds": 0.0, "probes": {}, "faults": {}, "end": subs[-1]["end"]}
    for s in subs:
        st = s["stats"]
        agg["steps"] += st["steps"]
        agg["switches"] += st["switches"]
        agg["sim_seconds"] += st["sim_seconds"]
        for kk, vv in st["probes"].items():
            agg["probes"][kk] = agg["probes"].get(kk, 0) + vv
        for kk, vv in st["faults"].items():
            agg["faults"][kk] = agg["faults"].get(kk, 0) + vv
    agg["probes"]["placements_run"] = len(subs)
    agg["probes"]["placements_fired"] = sum(1 for s in subs if s["fired"])
    res.stats = agg
    res.subruns = [(s["digest"], bool(s["fired"])) for s in subs]
    res.interleaving = subs[-1]["inter"]
    res.nontrivial = any(s["fired"] for s in subs)
    res.sample = {"threads": sc["threads"], "lookahead": sc["lookahead"], "use_poll": sc["use_poll"],
                  "victim": sc["victim"], "connections": [[("%s resp=%d" % (["GET", "POST", "POST-chunked", "MALFORMED"][q["kind"]], q["resp"])) for q in c["reqs"]] for c in sc["conns"]],
                  "sched": sc["sched"], "trace": sc["trace"], "reference_calls": subs[0]["calls"],
                  "placements_run": len(subs), "placements_fired": sum(1 for s in subs if s["fired"]),
                  "example_placements": [t[1] for t in todo[:3]]}
    return res
