"""Workload pieces shared by the property families: request builders, the
scripted WSGI application, knob drawing, segmentation."""
import io

from sim.harness import Simulation
from sim.shims import NetConfig
from models.r2_response import parse_stream

REAL = [
    "waitress.channel", "waitress.task", "waitress.server", "waitress.wasyncore",
    "waitress.trigger", "waitress.parser", "waitress.receiver", "waitress.buffers",
    "waitress.utilities", "waitress.adjustments", "waitress.proxy_headers", "waitress.rfc7230",
    "logging", "tempfile (real temporary files)",
]
STUB = [
    "thread scheduler (seeded baton-passing kernel)", "threading.Lock/RLock/Condition/Thread",
    "time.time/sleep (simulated clock)", "select.select/poll", "sockets (in-process fake TCP)",
    "os.pipe/read/write/close/dup (wake-up pipe)", "clients (event scripts)",
    "WSGI applications (generated scripts)",
]


class AppExc(Exception):
    pass


class AppBaseExc(BaseException):
    pass


def token_body(cid, ridx, size):
    """size bytes in which every position is attributable to (cid, ridx)."""
    if size <= 0:
        return b""
    unit = ("<%d.%d.%%d>" % (cid, ridx)).encode()
    out = bytearray()
    i = 0
    while len(out) < size:
        out += unit % i
        i += 1
    return bytes(out[:size])


def split_chunks(data, cuts):
    """cut data at the given sorted offsets."""
    out = []
    prev = 0
    for c in cuts:
        if prev < c < len(data):
            out.append(data[prev:c])
            prev = c
    out.append(data[prev:])
    return out


def build_request(method="GET", target="/", version="1.1", headers=(), body=None,
                  chunked=False, chunk_sizes=None, trailer=b""):
    lines = []
    if version:
        lines.append(("%s %s HTTP/%s" % (method, target, version)).encode("latin-1"))
    else:
        lines.append(("%s %s" % (method, target)).encode("latin-1"))
    hs = list(headers)
    payload = b""
    if body is not None:
        if chunked:
            hs.append(("Transfer-Encoding", "chunked"))
            sizes = chunk_sizes or [len(body)]
            pos = 0
            enc = bytearray()
            for s in sizes:
                piece = body[pos:pos + s]
                pos += s
                if piece:
                    enc += b"%X\r\n" % len(piece) + piece + b"\r\n"
            if pos < len(body):
                piece = body[pos:]
                enc += b"%X\r\n" % len(piece) + piece + b"\r\n"
            enc += b"0\r\n" + trailer + b"\r\n"
            payload = bytes(enc)
        else:
            hs.append(("Content-Length", str(len(body))))
            payload = body
    for k, v in hs:
        if isinstance(k, str):
            k = k.encode("latin-1")
        if isinstance(v, str):
            v = v.encode("latin-1")
        lines.append(k + b": " + v)
    return b"\r\n".join(lines) + b"\r\n\r\n" + payload


class UnseekableFile:
    def __init__(self, data, app, key):
        self._f = io.BytesIO(data)
        self.app = app
        self.key = key
        self.closed_count = 0

    def read(self, n=-1):
        return self._f.read(n)

    def close(self):
        self.closed_count += 1
        self.app._note_close(self.key)


class SeekableFile(io.BytesIO):
    def __init__(self, data, app, key):
        io.BytesIO.__init__(self, data)
        self.app = app
        self.key = key
        self.closed_count = 0
        self.close_raises = None
        self.shrink_to = None  # storage fault: the file was truncated to this size after it was measured
        self.read_raises = None  # (number of read() calls that succeed first, exception factory)
        self.reads = 0

    def read(self, n=-1):
        if self.read_raises is not None and self.reads >= self.read_raises[0]:
            self.app.k.log("app_raise", "'file_read'", self.read_raises[1].__name__)
            raise self.read_raises[1]()
        self.reads += 1
        if self.shrink_to is not None:
            room = max(0, self.shrink_to - self.tell())
            n = room if (n is None or n < 0) else min(n, room)
        return io.BytesIO.read(self, n)

    def close(self):
        self.closed_count += 1
        self.app._note_close(self.key)
        io.BytesIO.close(self)
        if self.close_raises is not None and self.closed_count == 1:
            self.app.k.log("app_raise", "'file_close'", self.close_raises.__name__)
            raise self.close_raises()


class ClosableIter:
    """iterable with a close() whose calls are counted."""

    def __init__(self, app, key, gen):
        self.app = app
        self.key = key
        self.gen = gen

    def __iter__(self):
        return self

    def __next__(self):
        return next(self.gen)

    def close(self):
        self.app._note_close(self.key)
        sc = self.app.scripts_by_key.get(self.key) or {}
        ra = sc.get("raise_at")
        if ra and ra[0] == "close":
            self.app.k.log("app_raise", "'close'", ra[1].__name__)
            raise ra[1]()


class SizedClosableIter(ClosableIter):
    """an iterable that also answers len() - the server asks, to give a one-element result a Content-Length -
    and whose __len__ is application code like the rest (it may raise)"""

    def __init__(self, app, key, gen, n, sc):
        ClosableIter.__init__(self, app, key, gen)
        self.n = n
        self.sc = sc

    def __len__(self):
        self.app._maybe_raise(self.sc, "len")
        return self.n


class ClosableList(list):
    pass


class ScriptedApp:
    """WSGI application whose behaviour per request is a script (dict):
      status, headers, cl (declared Content-Length or None), chunks (list of bytes),
      kind: list | gen | write | file | ufile
      sleeps: {step_index: dt}   simulated sleep before producing chunk i ("end" = after last)
      read_input: bool           read wsgi.input fully and record it
      raise_at: (step, factory)  step in "call", "sr", ("next", i), ("write", i), "close", "end"
      sr_late: bool              call start_response when the first chunk is requested
      has_close: bool            iterable has close() (default True)
      exc_info_recall: (status, headers)  second start_response with exc_info before first chunk
    """

    def __init__(self, sim, scripts=None, default=None, script_fn=None):
        self.sim = sim
        self.k = sim.k
        self.scripts = scripts or {}
        self.default = default or {"chunks": [b"ok"], "cl": 2}
        self.script_fn = script_fn
        self.calls = []  # dicts
        self.active = {}  # cid -> count of calls in progress
        self.max_active = {}
        self.close_counts = {}
        self.scripts_by_key = {}
        self.overlap = []

    def _note_close(self, key):
        self.close_counts[key] = self.close_counts.get(key, 0) + 1
        self.k.log("app", key[0], key[1], "close")
        self.k.progress += 1

    def sleep(self, dt):
        k = self.k
        if dt and dt > 0:
            k.block_until(None, k.now + dt, "app.sleep", active=True)

    def __call__(self, environ, start_response):
        k = self.k
        ch = environ["waitress.client_disconnected"].__self__
        cid = getattr(ch, "sim_cid", None)
        path = environ.get("PATH_INFO", "")
        per = [c for c in self.calls if c["cid"] == cid]
        ridx = len(per)
        key = (cid, ridx)
        if self.script_fn is not None:
            sc = self.script_fn(cid, ridx, environ)
        else:
            sc = self.scripts.get(path)
            if sc is None:
                sc = self.scripts.get((cid, ridx), self.default)
        self.scripts_by_key[key] = sc
        rec = {
            "cid": cid, "ridx": ridx, "path": path, "method": environ.get("REQUEST_METHOD"),
            "begin": None, "end": None, "script": sc, "environ": None, "input": None,
            "chunks_done": 0, "returned": False, "raised": None, "thread": k.current.name if k.current else "-",
        }
        self.calls.append(rec)
        n = self.active.get(cid, 0) + 1
        self.active[cid] = n
        if n > 1:
            self.overlap.append(key)
        rec["begin"] = k.log("app", cid, ridx, "begin", path)
        k.progress += 1
        if sc.get("keep_environ"):
            rec["environ"] = environ
        try:
            return self._run(environ, start_response, sc, rec, key)
        except BaseException as e:
            rec["raised"] = type(e).__name__
            self._finish(rec)
            raise

    def _finish(self, rec):
        if rec["end"] is None:
            cid = rec["cid"]
            rec["end"] = self.k.log("app", cid, rec["ridx"], "end")
            self.active[cid] = self.active.get(cid, 1) - 1
            st = rec["script"].get("starve")
            if st:
                self.k.starve(st[0], st[1])

    def _maybe_raise(self, sc, step):
        ra = sc.get("raise_at")
        if ra and ra[0] == step:
            self.k.log("app_raise", repr(step), ra[1].__name__)
            raise ra[1]()

    def _run(self, environ, start_response, sc, rec, key):
        k = self.k
        self._maybe_raise(sc, "call")
        if sc.get("read_input"):
            rec["input"] = environ["wsgi.input"].read()
        sl = sc.get("sleeps") or {}
        if "call" in sl:
            self.sleep(sl["call"])
        status = sc.get("status", "200 OK")
        headers = list(sc.get("headers", ()))
        if sc.get("cl") is not None:
            headers.append((sc.get("cl_name", "Content-Length"), str(sc["cl"])))
        chunks = list(sc.get("chunks", ()))
        kind = sc.get("kind", "list")

        def do_sr():
            self._maybe_raise(sc, "sr")
            w = start_response(status, headers)
            k.log("app", key[0], key[1], "sr")
            rc = sc.get("exc_info_recall")
            if rc:
                try:
                    raise AppExc("recall")
                except AppExc:
                    import sys
                    w = start_response(rc[0], list(rc[1]), sys.exc_info())
            return w

        if kind == "write":
            w = do_sr()
            for i, c in enumerate(chunks):
                if i in sl:
                    self.sleep(sl[i])
                self._maybe_raise(sc, ("write", i))
                w(c)
                rec["chunks_done"] = i + 1
                k.log("app", key[0], key[1], "wrote", i)
                k.progress += 1
            if "end" in sl:
                self.sleep(sl["end"])
            self._maybe_raise(sc, "end")
            rec["returned"] = True
            self._finish(rec)
            if sc.get("has_close", True):
                return ClosableIter(self, key, iter(()))
            return []
        if kind == "write+list":
            # the first chunk through write(), the rest as a plain one-element list (it has a len() of 1)
            w = do_sr()
            w(chunks[0] if chunks else b"")
            k.log("app", key[0], key[1], "wrote", 0)
            rec["chunks_done"] = 1
            rec["returned"] = True
            self._finish(rec)
            return [b"".join(chunks[1:])]
        if kind == "write+file":
            w = do_sr()
            w(chunks[0] if chunks else b"")
            k.log("app", key[0], key[1], "wrote", 0)
            data = b"".join(chunks[1:])
            f = SeekableFile(data, self, key)
            rec["file"] = f
            rec["returned"] = True
            self._finish(rec)
            return environ["wsgi.file_wrapper"](f, sc.get("block_size", 32768))
        if kind in ("file", "ufile"):
            do_sr()
            data = b"".join(chunks)
            f = SeekableFile(data, self, key) if kind == "file" else UnseekableFile(data, self, key)
            if sc.get("file_offset"):
                f.read(sc["file_offset"])  # the application hands over a file that is not at position 0
            ra = sc.get("raise_at")
            if ra and ra[0] == "file_close" and kind == "file":
                f.close_raises = ra[1]
            if ra and ra[0] == "file_read" and kind == "file":
                f.read_raises = (1, ra[1])  # the second read() of the handed-over file fails
            if sc.get("file_shrinks") and kind == "file":
                # seek()/tell() keep reporting the old size, read() meets the new end of the file
                f.shrink_to = max(f.tell(), len(data) - sc["file_shrinks"])
            rec["file"] = f
            rec["returned"] = True
            self._finish(rec)
            bs = sc.get("block_size", 32768)
            return environ["wsgi.file_wrapper"](f, bs)
        if kind == "list" and not sc.get("sr_late") and not sl and not sc.get("raise_at"):
            do_sr()
            rec["returned"] = True
            rec["chunks_done"] = len(chunks)
            self._finish(rec)
            if sc.get("has_close", True):
                return ClosableIter(self, key, iter(chunks))
            return list(chunks)
        # generator
        if not sc.get("sr_late"):
            do_sr()
        app = self

        def gen():
            try:
                if sc.get("sr_late"):
                    do_sr()
                for i, c in enumerate(chunks):
                    if i in sl:
                        app.sleep(sl[i])
                    app._maybe_raise(sc, ("next", i))
                    k.log("app", key[0], key[1], "yield", i)
                    k.progress += 1
                    rec["chunks_done"] = i + 1
                    yield c
                if "end" in sl:
                    app.sleep(sl["end"])
                app._maybe_raise(sc, "end")
            finally:
                app._finish(rec)

        rec["returned"] = True
        if sc.get("sized"):
            return SizedClosableIter(self, key, gen(), len(chunks), sc)
        if sc.get("has_close", True):
            return ClosableIter(self, key, gen())
        return gen()


def calls_of(app, cid):
    return [c for c in app.calls if c["cid"] == cid]


def draw_knobs(W, **ranges):
    out = {}
    for name, seq in ranges.items():
        out[name] = W.choice(seq)
    return out


def draw_sched(W, allow_trace=True, walk_p=0.6, means=(3, 10, 30, 100, 300), pct_p=0.2):
    """scheduler arm for a run: (sched dict, trace mode).  Arms: run-to-block, random walk (gap
    encoded), PCT (random priorities + d priority-drop points), each optionally with source-line
    pre-emption and the targeted-delay hook."""
    arm = W.weighted([max(0.0, 1.0 - walk_p - pct_p), walk_p, pct_p])
    trace = "none"
    sched = {"kind": "rtb"}
    if arm == 1:
        sched = {"kind": "walk", "gap_mean": W.choice(means)}
        if allow_trace and W.chance(0.5):
            trace = "all"
            sched["gap_mean"] = sched["gap_mean"] * 4
    elif arm == 2:
        sched = {"kind": "pct", "pct_d": 1 + W.draw(3), "pct_len": W.choice([300, 1500, 6000])}
        if allow_trace and W.chance(0.6):
            trace = "all"
            sched["pct_len"] *= 8
    if trace == "all" and W.chance(0.35):
        # one module's lines count eightfold towards the next pre-emption
        sched["hot"] = W.choice(["buffers.py", "channel.py", "task.py", "trigger.py", "wasyncore.py", "server.py"])
    if arm == 1 and W.chance(0.3):
        sched["release_bias"] = True  # walk: pre-empt right after lock releases five times as often
    if W.chance(0.25):
        sched["delay"] = True
    if W.chance(0.3):
        sched["handoff"] = True  # lock hand-off bias: a released lock goes to a waiter at once (half of the time)
    return sched, trace


def cut_points(W, n, max_cuts=3):
    """sorted cut offsets inside a stream of n bytes (0 cuts is the simple value)."""
    k = W.draw(max_cuts + 1)
    return sorted({1 + W.draw(max(1, n - 1)) for _ in range(k)}) if n > 1 else []


def base_stats(sim):
    k = sim.k
    faults = {kk[6:]: v for kk, v in k.probes.items() if kk.startswith("fault:")}
    probes = {kk: v for kk, v in k.probes.items() if not kk.startswith("fault:")}
    probes["idle_states"] = k.idle_states
    probes["quiescent_states"] = k.quiescent_states
    return {
        "steps": k.steps, "switches": k.switches, "sim_seconds": k.end_time - k.t0,
        "probes": probes, "faults": faults, "end": k.end_reason,
    }


def log_problems(sim, patterns=("uncaptured python exception", "Unexpected exception",
                                "Exception when servicing", "Unknown exception",
                                "Unexpected error")):
    out = []
    for seq, level, msg, exc, th in sim.logcap.records:
        if "Unexpected exception when flushing" in msg and "'NoneType' object has no attribute 'send'" in exc:
            # a producer-side flush found the socket already closed by the
            # I/O thread: contained by _flush_exception, not an escape
            continue
        for p in patterns:
            if p in msg:
                out.append((seq, msg[:300], exc[-600:]))
                break
    return out
