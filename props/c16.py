"""C16 - trusted proxy headers: only trusted kinds, only trusted hops, never a crash."""
import hashlib
import re

from sim.harness import Simulation
from sim.shims import NetConfig
from sim.runner import RunResult
from . import common, proxygen
from .common import ScriptedApp, build_request

PROPERTY = "C16"
LEVEL = "exploration"
BUDGET = {"quick": 25, "thorough": 480}
EVIDENCE = {
    "rule": "one request from the trusted proxy per run: Forwarded / X-Forwarded-* values with hop lists of length 0-5 whose "
            "hops carry unique markers (address, host, by), IPv4/IPv6/port forms, quoting, a degenerate element at a seeded "
            "position (':80', '[', '\"', empty, padded tokens, pairs without '=', ...), x trusted_proxy_count 1-4 x every "
            "allowed subset of trusted_proxy_headers x presence of untrusted kinds; reference R4 states only what the "
            "property fixes: hop selection when every hop is well formed, isolation of hops further left, stripping of "
            "untrusted kinds, 400 for the listed malformed classes, never 500; distinct = distinct (configuration, headers) "
            "hash; non-trivial = a hop list of length >= 2 was sent in a trusted kind",
    "real": common.REAL, "stub": common.STUB,
    "assumptions": [
        "R4 says MALFORMED only for the classes the property lists and only when the offending element lies inside the trusted suffix (or in a single-valued header); an offending element further left is EITHER (400 or ignored)",
        "when the selected hop lacks the wanted parameter the outcome is EITHER, except that no value may come from a hop further left than the trusted one",
        "clear_untrusted_proxy_headers is left at its default (on), which is what 'header kinds not trusted are stripped' refers to",
    ],
}
PEER = "192.0.2.10"
TOKEN = re.compile(r"\A[!#$%&'*+\-.^_`|~0-9A-Za-z:\[\]]+\Z")


def gen(W):
    sc = {}
    sc["count"] = 1 + W.draw(4)
    if W.chance(0.35):
        sc["tph"] = ["forwarded"]
    else:
        sc["tph"] = [k for k in proxygen.XKINDS if W.chance(0.65)] or ["x-forwarded-for"]
    hdrs, nh = proxygen.gen_headers(W, p_degenerate=0.3)
    sc["headers"] = {k: {kk: vv for kk, vv in v.items()} for k, v in hdrs.items()}
    sc["nh"] = nh
    sc["host"] = "app.example"
    sc["url_scheme"] = "http"
    # the option may be spelled the way the header names are usually written
    sc["tph_spelling"] = W.choice(["lower", "title", "upper", "string"], p0=0.5)
    return sc


def quoted_ok(v):
    """is v a token or a valid quoted-string (RFC 9110)"""
    if v.startswith('"') or v.endswith('"'):
        return bool(re.match(r'\A"(?:[\t \x21\x23-\x5b\x5d-\x7e\x80-\xff]|\\[\t \x21-\x7e\x80-\xff])*"\Z', v))
    return True


def classify_xff_elem(e):
    """-> 'ok' | 'malformed' | 'odd' for one X-Forwarded-For / -Host element"""
    t = e.strip()
    if not quoted_ok(t):
        return "malformed"
    if t.startswith('"'):
        t = t[1:-1]
    if t == "":
        return "odd"
    if re.match(r"\A:[0-9]+\Z", t.strip()):
        return "empty_host"  # (also a host part that is nothing but blanks, possible inside a quoted-string)
    if not re.match(r"\A[A-Za-z0-9.\-:\[\]]+\Z", t) or t.count("[") != t.count("]") or t in ("[]", "::", ":"):
        return "odd"
    return "ok"


def classify_forwarded_elem(e):
    t = e.strip()
    if t == "":
        return "odd"
    kinds = set()
    for pair in t.split(";"):
        if pair == "":
            continue
        if "=" not in pair:
            return "malformed"
        tok, _, val = pair.partition("=")
        if tok.strip() != tok or val.strip() != val:
            return "malformed"
        if not quoted_ok(val):
            return "malformed"
        v = val[1:-1] if val.startswith('"') and len(val) >= 2 else val
        if tok.lower() == "host" and re.match(r"\A:[0-9]+\Z", v.strip()):
            kinds.add("empty_host")
        elif tok.lower() in ("host", "for") and (not re.match(r"\A[A-Za-z0-9.\-:\[\]_]+\Z", v) or v.count("[") != v.count("]") or v in ("[]", "::", ":")):
            kinds.add("odd")
        if tok.lower() == "proto" and v.lower() not in ("http", "https", ""):
            kinds.add("bad_proto")
        if tok.lower() in ("for",) and v.startswith(":") and len(v) > 1:
            kinds.add("odd")
        if tok == "" or v == "":
            kinds.add("odd")
    if "empty_host" in kinds:
        return "empty_host"
    if "bad_proto" in kinds:
        return "bad_proto"
    if "odd" in kinds:
        return "odd"
    return "ok"


def run_one(tapes, tier, scenario=None):
    sc = scenario if scenario is not None else gen(tapes.W)
    res = RunResult()
    res.scenario = sc
    sp = sc.get("tph_spelling", "lower")
    names = sorted(sc["tph"])
    if sp == "title":
        tph_cfg = {proxygen.WIRE_NAME[n] for n in names}
    elif sp == "upper":
        tph_cfg = {n.upper() for n in names}
    elif sp == "string":
        tph_cfg = " ".join(proxygen.WIRE_NAME[n] for n in names)
    else:
        tph_cfg = set(names)
    knobs = dict(threads=1, trusted_proxy=PEER, trusted_proxy_count=sc["count"],
                 trusted_proxy_headers=tph_cfg, url_scheme=sc["url_scheme"])
    sim = Simulation(tapes, knobs=knobs, net=NetConfig(), sched={"kind": "rtb"}, horizon=30.0)
    k = sim.k
    k.log("scenario", hashlib.sha256(repr(sorted(sc.items(), key=str)).encode("utf-8", "backslashreplace")).hexdigest()[:16])
    app = ScriptedApp(sim, {}, default={"chunks": [b"ok"], "cl": 2, "keep_environ": True})
    sim.build(app)
    h = [("Host", sc["host"])]
    for kind, info in sc["headers"].items():
        h.append((proxygen.WIRE_NAME[kind], info["value"].encode("latin-1", "replace")))
    # a second request travels behind the first: after a 400 the server must close, not serve on
    sim.add_client([("send", build_request("GET", "/p", "1.1", h) + build_request("GET", "/after", "1.1", [("Host", sc["host"])]))],
                   cid=0, addr=(PEER, 40123))
    sim.run()
    s = sim.conns.get(0)
    wire = bytes(s.wire)
    status = int(wire[9:12]) if wire[:5] == b"HTTP/" and wire[9:12].isdigit() else None
    env = dict(app.calls[0]["environ"]) if app.calls else None
    trusted = set(sc["tph"])
    count = sc["count"]
    nh = sc["nh"]
    cfg = "count=%d/%s" % (count, "+".join(sorted(trusted)))
    desc = {kk: vv["value"] for kk, vv in sc["headers"].items()}
    lp = common.log_problems(sim, patterns=("Exception while serving", "uncaptured python exception", "Exception when servicing"))
    if lp or status == 500:
        from .pipeline import exc_disc
        which = exc_disc(lp[0]) if lp else "500"
        res.v("crash", which, "a proxy header value made the server fail (status %r): %s\n%s; headers %r; config %s" % (
            status, lp[0][1] if lp else "", lp[0][2] if lp else "", desc, cfg))
    elif status not in (200, 400):
        res.v("status", str(status), "unexpected status %r for headers %r" % (status, desc))
    if status == 400:
        # the refusal is a server-generated error response: exactly one, then the connection is closed
        n_resp = wire.count(b"HTTP/1.1 ") + wire.count(b"HTTP/1.0 ")
        if n_resp != 1 or any(c["path"] == "/after" for c in app.calls) or not s.closed:
            res.v("served_after_400", cfg, "after the 400 for headers %r the connection was not closed: %d response(s) on the wire, application calls %r, closed=%s" % (
                desc, n_resp, [c["path"] for c in app.calls], s.closed))
    else:
        # ---- which outcome does the property fix?
        must_400 = []
        may_400 = []
        for kind, info in sc["headers"].items():
            if kind not in trusted:
                continue
            if kind == "forwarded" and info["value"].strip() == "":
                continue
            elems = info["elems"]
            n = len(elems)
            first_trusted = max(0, n - count)
            if kind in ("x-forwarded-for", "x-forwarded-host"):
                for i, e in enumerate(elems):
                    c = classify_xff_elem(e)
                    if kind == "x-forwarded-for" and c == "empty_host":
                        c = "odd"
                    if c in ("malformed", "empty_host"):
                        (must_400 if (i >= first_trusted and (c == "malformed" or i == first_trusted)) else may_400).append((kind, i, e, c))
                    elif c == "odd":
                        may_400.append((kind, i, e, c))
            elif kind in ("x-forwarded-proto", "x-forwarded-port"):
                v = info["value"]
                if "," in v:
                    must_400.append((kind, 0, v, "list"))
                elif not quoted_ok(v.strip()):
                    must_400.append((kind, 0, v, "malformed"))
                elif kind == "x-forwarded-proto":
                    t = v.strip().strip('"').lower()
                    if t not in ("http", "https", ""):
                        must_400.append((kind, 0, v, "bad_proto"))
                    elif v != v.strip():
                        may_400.append((kind, 0, v, "padded"))
                else:
                    t = v.strip().strip('"')
                    if t and not t.isdigit() or v != v.strip():
                        may_400.append((kind, 0, v, "odd_port"))
            elif kind == "forwarded":
                for i, e in enumerate(elems):
                    c = classify_forwarded_elem(e)
                    if c == "malformed":
                        (must_400 if i >= first_trusted else may_400).append((kind, i, e, c))
                    elif c in ("empty_host", "bad_proto"):
                        # only decisive if this is the hop the value is taken from; otherwise EITHER
                        may_400.append((kind, i, e, c))
                        if i >= first_trusted:
                            # is it the selected hop for that parameter?  leftmost trusted hop having the parameter
                            sel = None
                            key = "host=" if c == "empty_host" else "proto="
                            for j in range(first_trusted, n):
                                if key in elems[j].lower():
                                    sel = j
                                    break
                            if sel == i:
                                must_400.append((kind, i, e, c))
                    elif c == "odd":
                        may_400.append((kind, i, e, c))
        if must_400 and status != 400:
            kd, i, e, c = must_400[0]
            res.v("not_refused", "%s:%s" % (kd, c), "%s element %d %r is %s and lies in the trusted part (count %d of %d hops) but the request was served (status %r); headers %r" % (
                kd, i, e, c, count, nh, status, desc))
        if status == 400 and not must_400 and not may_400:
            res.v("refused_wellformed", cfg, "every trusted header is well formed but the request was refused; headers %r" % (desc,))
        if status == 200 and env is not None:
            strs = {kk: vv for kk, vv in env.items() if isinstance(vv, str)}
            # (c) isolation of hops further left than the trusted one
            for kind, info in sc["headers"].items():
                if kind not in trusted or kind in ("x-forwarded-proto", "x-forwarded-port", "x-forwarded-by"):
                    continue  # (X-Forwarded-By is passed through unsliced by design and is not anchored by the property)
                n = len(info["elems"])
                first_trusted = max(0, n - count)
                for i in range(first_trusted):
                    for mk in proxygen.marker_strings(i):
                        if mk not in info["elems"][i]:
                            continue
                        # the same marker may legitimately come from another *trusted kind* whose own list is shorter
                        for kk, vv in strs.items():
                            if mk in vv and not any(mk in " ".join(o["elems"][max(0, len(o["elems"]) - count):])
                                                    for ok_, o in sc["headers"].items() if ok_ in trusted):
                                res.v("left_hop_leaked", kind, "value %r of hop %d (left of the %d trusted hop(s) of %d) reached the application in %s=%r; headers %r" % (
                                    mk, i, count, n, kk, vv, desc))
                                break
            # (e) untrusted kinds stripped and without influence
            for kind, info in sc["headers"].items():
                if kind in trusted:
                    continue
                if "forwarded" in trusted and kind != "forwarded":
                    pass
                key = proxygen.ENV_KEY[kind]
                if key in env:
                    res.v("untrusted_kind_not_stripped", kind, "%s is not trusted but reached the application: %r" % (kind, env[key]))
            # (d) selection when everything is well formed: the value must come from the selected hop
            def has_marker(val, i):
                return any(mk in (val or "") for mk in proxygen.marker_strings(i))

            degen_kinds = {kk for kk, vv in sc["headers"].items() if vv.get("degenerate")}
            if not must_400 and not may_400 and not (degen_kinds & trusted):
                if "x-forwarded-for" in trusted and "forwarded" not in trusted and sc["headers"].get("x-forwarded-for", {}).get("elems"):
                    el = [e.strip() for e in sc["headers"]["x-forwarded-for"]["elems"]]
                    si = max(0, len(el) - count)
                    if not has_marker(env.get("REMOTE_ADDR"), si):
                        res.v("wrong_hop", "x-forwarded-for", "REMOTE_ADDR is %r, the %d-th hop from the right of %r is %r" % (env.get("REMOTE_ADDR"), count, el, el[si]))
                    want_hdr = [e.strip() for e in el[si:]]
                    got_hdr = [e.strip() for e in env.get("HTTP_X_FORWARDED_FOR", "").split(",")] if env.get("HTTP_X_FORWARDED_FOR") else []
                    if got_hdr != want_hdr:
                        res.v("rewrite", "x-forwarded-for", "HTTP_X_FORWARDED_FOR is %r, the trusted suffix is %r" % (env.get("HTTP_X_FORWARDED_FOR"), want_hdr))
                if "x-forwarded-host" in trusted and sc["headers"].get("x-forwarded-host", {}).get("elems"):
                    el = [e.strip() for e in sc["headers"]["x-forwarded-host"]["elems"]]
                    si = max(0, len(el) - count)
                    if not has_marker(env.get("HTTP_HOST"), si) or not has_marker(env.get("SERVER_NAME"), si):
                        res.v("wrong_hop", "x-forwarded-host", "HTTP_HOST %r / SERVER_NAME %r, the selected hop is %r of %r (count %d)" % (
                            env.get("HTTP_HOST"), env.get("SERVER_NAME"), el[si], el, count))
                if "forwarded" in trusted and "forwarded" in sc["headers"]:
                    info = sc["headers"]["forwarded"]
                    params = info.get("params") or []
                    if params and all(p is not None for p in params):
                        n = len(params)
                        si = max(0, n - count)
                        sel = params[si]
                        if "for" in sel and not has_marker(env.get("REMOTE_ADDR"), si):
                            res.v("wrong_hop", "forwarded:for", "REMOTE_ADDR is %r, the selected element has for=%r (count %d, elements %r)" % (env.get("REMOTE_ADDR"), sel["for"], count, info["elems"]))
                        if "host" in sel and not has_marker(env.get("HTTP_HOST"), si):
                            res.v("wrong_hop", "forwarded:host", "HTTP_HOST is %r, the selected element has host=%r (count %d, elements %r)" % (env.get("HTTP_HOST"), sel["host"], count, info["elems"]))
                        if "proto" in sel and env.get("wsgi.url_scheme") != sel["proto"]:
                            res.v("wrong_hop", "forwarded:proto", "wsgi.url_scheme is %r, the selected element has proto=%r" % (env.get("wsgi.url_scheme"), sel["proto"]))
            # without any trusted header present nothing may change
            if not any(kk in trusted for kk in sc["headers"]):
                if env.get("REMOTE_ADDR") != PEER or env.get("HTTP_HOST") != sc["host"] or env.get("wsgi.url_scheme") != sc["url_scheme"]:
                    res.v("untrusted_kind_influence", cfg, "no trusted kind was sent, yet REMOTE_ADDR=%r HTTP_HOST=%r scheme=%r; headers %r" % (
                        env.get("REMOTE_ADDR"), env.get("HTTP_HOST"), env.get("wsgi.url_scheme"), desc))
    if k.end_reason == "step_cap":
        res.harness_error = "step cap reached"
    if k.harness_error:
        res.harness_error = k.harness_error
    res.digest = k.digest()
    res.stats = common.base_stats(sim)
    res.stats["cells"] = ["%s/n=%d" % (cfg, nh)]
    res.nontrivial = nh >= 2 and any(kk in trusted for kk in sc["headers"])
    res.sample = {"trusted_proxy_count": count, "trusted_proxy_headers": sorted(trusted), "headers": desc, "status": status,
                  "environ": {kk: env.get(kk) for kk in ("REMOTE_ADDR", "REMOTE_PORT", "HTTP_HOST", "SERVER_NAME", "SERVER_PORT", "wsgi.url_scheme",
                                                          "HTTP_FORWARDED", "HTTP_X_FORWARDED_FOR")} if env else None}
    return res
