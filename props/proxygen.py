"""Generator of Forwarded / X-Forwarded-* header values with per-hop markers."""

XKINDS = ["x-forwarded-for", "x-forwarded-host", "x-forwarded-proto", "x-forwarded-port", "x-forwarded-by"]
WIRE_NAME = {"x-forwarded-for": "X-Forwarded-For", "x-forwarded-host": "X-Forwarded-Host",
             "x-forwarded-proto": "X-Forwarded-Proto", "x-forwarded-port": "X-Forwarded-Port",
             "x-forwarded-by": "X-Forwarded-By", "forwarded": "Forwarded"}
ENV_KEY = {k: "HTTP_" + v.upper().replace("-", "_") for k, v in WIRE_NAME.items()}

DEGENERATE = [":80", "[", "\"", "", " ", "]", "[]", "[]:80", "::", ":", "\"\"", "\"a", "a\"", "\\", "a b", "\t", ";", "=",
              "\" :80\"", "\"  :8080\"", "\" \"", "unknown", "_hidden", "1.2.3.4:", "1.2.3.4:abc", "[::1", "::1]", "\"[::1]\"", "\"1.2.3.4\\\"\"", "x" * 300]


def hop_addr(i, form):
    if form == 0:
        return "10.0.%d.7" % i
    if form == 1:
        return "10.0.%d.7:%d" % (i, 5000 + i)
    if form == 2:
        return "[2001:db8:%d::7]" % i
    if form == 3:
        return "[2001:db8:%d::7]:%d" % (i, 6000 + i)
    return "2001:db8:%d::7" % i


def hop_host(i, form):
    if form == 0:
        return "h%d.example" % i
    if form == 1:
        return "h%d.example:%d" % (i, 8000 + i)
    return "[2001:db8:%d::9]:%d" % (i, 8100 + i)


def marker_strings(i):
    """substrings that identify hop i in any rendering"""
    return ["10.0.%d.7" % i, "2001:db8:%d::7" % i, "h%d.example" % i, "2001:db8:%d::9" % i, "by%d" % i]


def gen_headers(W, kinds=None, p_degenerate=0.25):
    """returns dict: kind -> {"value": str, "hops": n, "degenerate": [(index, text)], "wellformed": bool,
                              "params": per-hop dict}"""
    out = {}
    nh = W.draw(6)  # number of hops 0..5
    use = kinds if kinds is not None else [k for k in XKINDS + ["forwarded"] if W.chance(0.6)]
    deg_at = W.draw(max(1, nh)) if (nh and W.chance(p_degenerate)) else None
    deg_text = W.choice([":80", "[", "\"", "", ":8080", "[:80"]) if W.chance(0.5) else W.choice(DEGENERATE)
    forms = [W.draw(5) for _ in range(nh)]
    hforms = [W.draw(3) for _ in range(nh)]
    protos = [W.choice(["https", "http", "s", "tps", "htt", "httpss"], p0=0.45) if W.chance(0.2) else W.choice(["https", "http"]) for _ in range(nh)]
    sep = W.choice([", ", ",", " , "])
    for kind in use:
        info = {"hops": nh, "degenerate": None, "sep": sep}
        if kind == "x-forwarded-for":
            vals = [hop_addr(i, forms[i]) for i in range(nh)]
            if deg_at is not None:
                vals[deg_at] = deg_text
                info["degenerate"] = (deg_at, deg_text)
            info["value"] = sep.join(vals)
            info["elems"] = vals
        elif kind == "x-forwarded-host":
            vals = [hop_host(i, hforms[i]) for i in range(nh)]
            if deg_at is not None and W.chance(0.5):
                vals[deg_at] = deg_text
                info["degenerate"] = (deg_at, deg_text)
            info["value"] = sep.join(vals)
            info["elems"] = vals
        elif kind == "x-forwarded-proto":
            v = W.choice(["https", "http", "HTTPS", "ftp", "https, http", "", " https", "\"https\"", "ws", "http,",
                          "s", "h", "htt", "tps", "phttps", "httpss", "httphttps", "\"ttp\""])  # (fragments / multiples of the two names)
            info["value"] = v
            info["elems"] = [v]
        elif kind == "x-forwarded-port":
            v = W.choice(["443", "80", "8443", "abc", "443, 80", "", " 443", "\"443\"", "-1", "99999999999"])
            info["value"] = v
            info["elems"] = [v]
        elif kind == "x-forwarded-by":
            info["value"] = sep.join("by%d" % i for i in range(nh))
            info["elems"] = ["by%d" % i for i in range(nh)]
        else:  # forwarded
            elems = []
            params = []
            for i in range(nh):
                p = {}
                parts = []
                if W.chance(0.85):
                    a = hop_addr(i, forms[i] if forms[i] != 4 else 2)
                    p["for"] = a
                    parts.append("for=%s" % (('"%s"' % a) if (":" in a or W.chance(0.2)) else a))
                if W.chance(0.6):
                    hh = hop_host(i, hforms[i])
                    p["host"] = hh
                    parts.append("host=%s" % (('"%s"' % hh) if ":" in hh else hh))
                if W.chance(0.6):
                    p["proto"] = protos[i]
                    parts.append("proto=%s" % protos[i])
                if W.chance(0.3):
                    p["by"] = "by%d" % i
                    parts.append("by=by%d" % i)
                if W.chance(0.1):
                    parts.append("secret=s%d" % i)
                if W.chance(0.15):
                    parts = [x.replace("for=", "For=").replace("host=", "HOST=") for x in parts]
                elems.append(W.choice([";", "; "]).join(parts) if parts else "")
                params.append(p)
            if deg_at is not None and W.chance(0.7):
                dz = W.choice(["for=" + deg_text, "host=" + deg_text, deg_text, "for", "for =x", "for= x", " for=x;", "proto=" + deg_text,
                               "for=\"" + deg_text, "for=a;;host=b", "for=a;host", "=x"], p0=0.3)
                elems[deg_at] = dz
                params[deg_at] = None
                info["degenerate"] = (deg_at, dz)
            info["value"] = sep.join(elems)
            info["elems"] = elems
            info["params"] = params
        out[kind] = info
    return out, nh
