"""C02 - parsing does not depend on how the byte stream is split across reads."""
import hashlib

from sim.harness import Simulation
from sim.shims import NetConfig
from sim.runner import RunResult
from sim.tape import Tapes
from models.r2_response import parse_stream
from . import common, reqgen, c01
from .common import ScriptedApp

PROPERTY = "C02"
LEVEL = "exploration"
BUDGET = {"quick": 30, "thorough": 600}
EVIDENCE = {
    "rule": "a request stream (C01's grammar and mutations, plus heads and bodies straddling small size limits) is "
            "delivered under 4-6 arrival schedules with the same seed: one piece; one byte at a time; a cut inside every "
            "CRLF pair; seeded cut sets biased to land next to CR/LF, in chunk-size lines, between chunk data and its "
            "terminator and inside the trailer; and two recv_bytes values; the thread scheduler is fixed to run-to-block so "
            "that arrival is the only varying dimension; one evaluation = one (stream, schedule) run; distinct = distinct "
            "history digest; non-trivial = the stream was cut at least once inside a message; in ~12 % of the scenarios an "
            "L-byte window (L in 6..8) placed next to a CR/LF is additionally cut in all 2^(L-1) ways (exhaustive inside the window)",
    "real": common.REAL, "stub": common.STUB,
    "assumptions": [
        "metamorphic oracle: no reference parser is involved; a defect that mis-handles a message consistently is C01's business, not C02's",
        "interim 100-continue responses are excluded from the compared outcome (whether a body 'has not yet arrived' is inherently timing dependent; C19 owns them)",
        "the outcome tuple is: application calls (method, target, fields, body) in order, final response statuses in order, whether and after which response the connection was closed",
    ],
}


def gen(W):
    sc = {}
    sc["lookahead"] = W.choice([0, 1])
    sc["small_limits"] = W.chance(0.3)
    if sc["small_limits"]:
        sc["max_header"] = W.choice([120, 200, 400])
        sc["max_body"] = W.choice([50, 300, 2100])
    n = 1 + W.draw(3)
    msgs = []
    nmut = 0
    for i in range(n):
        m = reqgen.gen_message(W, i, {"big_body": 800})
        if nmut < 2 and W.chance(0.6 if nmut == 0 else 0.15):
            reqgen.apply_mutation(m, reqgen.pick_mutation(W, m), W)
            nmut += 1
        msgs.append(m)
    sc["msgs"] = msgs
    sc["expect"] = W.chance(0.1)
    sc["ncuts"] = 1 + W.draw(6)
    sc["sub_seed"] = W.draw(1 << 30)
    sc["recv_alt"] = W.choice([1, 7, 64])
    # exhaustive arm: all 2^(L-1) ways of cutting an L-byte window placed at an interesting offset
    sc["enum_region"] = W.chance(0.12)
    sc["enum_at"] = W.draw(1000)
    sc["enum_len"] = W.choice([6, 7, 8])
    return sc


def interesting_offsets(stream):
    out = set()
    for i, b in enumerate(stream):
        if b in (13, 10):
            out.update((i, i + 1))
    return sorted(o for o in out if 0 < o < len(stream))


def one_run(sc, stream, cuts, recv_bytes, sub_id, delay):
    tapes = Tapes(sc["sub_seed"], "C02sub", sub_id)
    knobs = dict(threads=1, channel_request_lookahead=sc["lookahead"], recv_bytes=recv_bytes,
                 clear_untrusted_proxy_headers=False)
    if sc["small_limits"]:
        knobs["max_request_header_size"] = sc["max_header"]
        knobs["max_request_body_size"] = sc["max_body"]
    sim = Simulation(tapes, knobs=knobs, net=NetConfig(), sched={"kind": "rtb"}, horizon=120.0, step_cap=400000)
    k = sim.k
    app = ScriptedApp(sim, {}, default={"chunks": [b"ok"], "cl": 2, "read_input": True, "keep_environ": True})
    sim.build(app)
    steps = []
    for i, seg in enumerate(common.split_chunks(stream, cuts)):
        if i:
            steps.append(("sleep", delay))
        steps.append(("send", seg))
    sim.add_client(steps, cid=0)
    sim.run()
    s = sim.conns.get(0)
    rs, probs = parse_stream(s.wire, ["GET"] * 12, s.closed)
    finals = [r for r in rs if not r.interim]
    calls = []
    for c in app.calls:
        env = c["environ"] or {}
        fields = tuple(sorted((kk, vv) for kk, vv in env.items() if kk.startswith("HTTP_") or kk in ("CONTENT_LENGTH", "CONTENT_TYPE")))
        calls.append((env.get("REQUEST_METHOD"), env.get("REQUEST_URI"), env.get("SERVER_PROTOCOL"), fields, c["input"]))
    outcome = {"calls": calls, "statuses": [r.status for r in finals], "closed": s.closed,
               "bodies": [hashlib.sha256(r.body).hexdigest()[:8] if r.status == 200 else "-" for r in finals],
               "escaped": bool(common.log_problems(sim, patterns=("uncaptured python exception", "Exception when servicing", "Exception while serving")))}
    herr = "step cap" if k.end_reason == "step_cap" else k.harness_error
    return outcome, {"digest": k.digest(), "stats": common.base_stats(sim), "herr": herr, "end": k.end_reason,
                     "inter": k.switch_hash.hexdigest()}


def run_one(tapes, tier, scenario=None):
    if scenario is not None:
        sc = dict(scenario)
        sc["msgs"] = [c01.fix_types(m) for m in c01.deser(scenario["msgs"])]
    else:
        sc = gen(tapes.W)
    res = RunResult()
    try:
        msgs = [reqgen.finalize(m) for m in sc["msgs"]]
    except AssertionError as e:
        res.harness_error = str(e)
        res.digest = "selfcheck"
        res.stats = {"end": "selfcheck"}
        return res
    res.scenario = dict(sc)
    res.scenario["msgs"] = c01.ser(sc["msgs"])
    stream = b"".join(m["raw"] for m in msgs) + c01.PROBE
    if sc.get("expect"):
        stream = stream.replace(b"X-Idx: 0\r\n", b"X-Idx: 0\r\nExpect: 100-continue\r\n", 1)
    n = len(stream)
    import random
    rr = random.Random(sc["sub_seed"])
    io = interesting_offsets(stream)
    schedules = [("one_piece", [], 8192)]
    if n <= 1500:
        schedules.append(("byte_at_a_time", list(range(1, n)), 8192))
    schedules.append(("inside_every_crlf", [i + 1 for i in range(n - 1) if stream[i] == 13 and stream[i + 1] == 10], 8192))
    for j in range(2):
        cuts = set()
        for _ in range(sc["ncuts"]):
            if io and rr.random() < 0.7:
                cuts.add(rr.choice(io))
            else:
                cuts.add(rr.randrange(1, n))
        schedules.append(("seeded_%d" % j, sorted(cuts), 8192))
    schedules.append(("recv_%d" % sc["recv_alt"], [], sc["recv_alt"]))
    if sc.get("enum_region") and io:
        start = io[sc["enum_at"] % len(io)]
        start = max(0, min(start - 2, n - sc["enum_len"]))
        inner = list(range(start + 1, min(n, start + sc["enum_len"])))
        for mask in range(1, 1 << len(inner)):
            cuts = [p_ for bit, p_ in enumerate(inner) if mask >> bit & 1]
            schedules.append(("enum_%d_%d" % (start, mask), cuts, 8192))
    only = sc.get("only_schedules")
    if only is not None:
        schedules = [schedules[0]] + [s_ for s_ in schedules[1:] if s_[0] in only]
    subs = []
    base = None
    labels = "+".join(sorted({m["mutation"] or "canonical" for m in msgs}))
    for sid, (name, cuts, rb) in enumerate(schedules):
        outcome, info = one_run(sc, stream, cuts, rb, sid, 0.0002)
        subs.append((name, info, len(cuts)))
        if info["herr"]:
            res.harness_error = info["herr"]
        if base is None:
            base = outcome
            continue
        if outcome != base:
            diffs = [kk for kk in base if base[kk] != outcome[kk]]
            what = diffs[0]
            REF = (400, 413, 431, 501)
            if (diffs == ["statuses"] and len(base["statuses"]) == len(outcome["statuses"])
                    and all(a == b or (a in REF and b in REF) for a, b in zip(base["statuses"], outcome["statuses"]))):
                disc = "refusal_status_differs"
            else:
                disc = "%s:%s" % (what, labels)
            res.v("segmentation_dependent", disc,
                  "delivering the same %d-byte stream as '%s' (cuts %r, recv_bytes %d) changes the outcome (%s): one piece -> statuses %r calls %r closed %s; this schedule -> statuses %r calls %r closed %s; stream %r" % (
                      n, name, cuts[:12], rb, ",".join(diffs), base["statuses"], [c[1] for c in base["calls"]], base["closed"],
                      outcome["statuses"], [c[1] for c in outcome["calls"]], outcome["closed"], stream[:300]))
            if only is None:
                res.scenario["only_schedules"] = [name]
            break
    res.digest = hashlib.sha256("".join(s_[1]["digest"] for s_ in subs).encode()).hexdigest()
    agg = {"steps": 0, "switches": 0, "sim_seconds": 0.0, "probes": {}, "faults": {}, "end": subs[-1][1]["end"]}
    for name, info, nc in subs:
        st = info["stats"]
        agg["steps"] += st["steps"]
        agg["switches"] += st["switches"]
        agg["sim_seconds"] += st["sim_seconds"]
        agg["probes"]["schedule:" + name.split("_")[0]] = agg["probes"].get("schedule:" + name.split("_")[0], 0) + 1
        if name.startswith("enum_") and name.endswith("_1"):
            agg["probes"]["windows_cut_exhaustively"] = agg["probes"].get("windows_cut_exhaustively", 0) + 1
        agg["faults"]["seg_cut"] = agg["faults"].get("seg_cut", 0) + nc
    agg["cells"] = [m["mutation"] or "canonical:" + m["framing"] for m in msgs]
    res.stats = agg
    res.subruns = [(info["digest"], nc > 0) for name, info, nc in subs]
    res.interleaving = subs[-1][1]["inter"]
    res.nontrivial = True
    res.sample = {"stream": stream[:240].decode("latin-1"), "bytes": n, "mutations": [m["mutation"] for m in msgs],
                  "schedules": [(name, nc, rb) for (name, cuts, rb), (_, info, nc) in zip(schedules, subs)][:12],
                  "outcome": {"statuses": base["statuses"], "calls": [c[1] for c in base["calls"]], "closed": base["closed"]}}
    return res
