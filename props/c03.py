"""C03 - every response stream is well-framed and persistence is signalled truthfully."""
from sim.harness import Simulation
from sim.shims import NetConfig
from sim.runner import RunResult
from models.r2_response import parse_stream
from . import common
from .common import ScriptedApp, build_request, token_body, AppExc

PROPERTY = "C03"
LEVEL = "exploration"
BUDGET = {"quick": 40, "thorough": 600}
SERVER_FIELDS = {"date", "server", "via", "connection", "content-length", "transfer-encoding"}
EVIDENCE = {
    "rule": "pipelines of 1-3 requests; per request an application script: kind list/generator/write()/wsgi.file_wrapper "
            "(seekable or not), status 200/204/304/201, Content-Length absent/exact/larger/smaller than the bytes produced, "
            "0-4 chunks incl. empty ones, optional late start_response, optional exception before or after the head, exc_info "
            "re-call, write() followed by a file, files handed over at an offset, a storage fault that truncates a handed-over "
            "file after the server measured it; clients that half-close after their last request (lookahead 0); request method "
            "GET/POST/HEAD, HTTP/1.0 or 1.1, Connection absent/close/keep-alive; a further request is always queued behind to "
            "observe persistence; the wire is parsed by the independent client-side parser R2; distinct = distinct history "
            "digest; non-trivial = at least two requests on the connection and a body-bearing or failing first response",
    "real": common.REAL, "stub": common.STUB,
    "assumptions": [
        "applications that emit body bytes for HEAD or several/non-decimal Content-Length fields are not generated (outside the quantifier)",
        "the application's Content-Length field is excluded from the field-by-field comparison (the server legitimately rewrites or drops it)",
        "this is seeded sampling of application behaviours through the whole simulated server; scheduling and segmentation are varied only as nuisance dimensions",
    ],
}


def gen_script(W, method):
    s = {}
    s["kind"] = W.choice(["list", "gen", "write", "file", "ufile", "write+file", "write+list"])
    s["cl_name"] = W.choice(["Content-Length", "content-length", "Content-length", "CONTENT-LENGTH"], p0=0.6)
    s["recall"] = W.chance(0.08)
    s["status"] = W.choice(["200 OK", "204 No Content", "304 Not Modified", "201 Created"], p0=0.6)
    n = W.draw(5)
    s["sizes"] = [W.choice([9, 0, 1, 200, 2500, 9000]) for _ in range(n)]
    if method == "HEAD":
        s["sizes"] = [0 for _ in s["sizes"]][:2]
        if s["kind"] in ("file", "ufile", "write+file", "write+list"):
            s["kind"] = "list"
        s["head_equiv"] = W.choice([0, 33, 4000])
    s["cl"] = W.choice(["exact", "none", "larger", "smaller"])
    s["sr_late"] = W.chance(0.25)
    s["exc_after_head"] = W.chance(0.08)
    s["extra_headers"] = W.choice([0, 1, 2])
    s["block_size"] = W.choice([32768, 100])
    s["file_offset"] = W.choice([0, 0, 3, 50, 100000])
    s["exc_before_head"] = W.chance(0.06)
    # storage fault: a seekable file loses its tail after the server has measured it
    s["file_shrinks"] = W.choice([0, 1, 300], p0=0.85)
    # a plain list (it has a len(): the server infers a Content-Length for a one-element result) instead of an
    # iterable object with close()
    s["plain_list"] = W.chance(0.35)
    return s


def gen(W):
    sc = {}
    sc["threads"] = W.choice([1, 2])
    sc["lookahead"] = W.choice([0, 1])
    sc["sendbuf_len"] = W.choice([8192, 200])
    sc["sndbuf_cap"] = W.choice([65536, 900])
    sc["send_bytes"] = W.choice([18000, 1])
    sc["outbuf_overflow"] = W.choice([1048576, 50])
    sc["use_poll"] = W.chance(0.3)
    sc["p_partial"] = W.choice([0.0, 0.4])
    sc["ident"] = W.choice(["waitress", ""], p0=0.8)
    reqs = []
    for i in range(1 + W.draw(3)):
        q = {}
        q["method"] = W.choice(["GET", "HEAD", "POST"], p0=0.6)
        q["version"] = W.choice(["1.1", "1.0"], p0=0.7)
        q["conn"] = W.choice([None, "close", "keep-alive", "Keep-Alive"], p0=0.5)
        q["script"] = gen_script(W, q["method"])
        reqs.append(q)
    sc["reqs"] = reqs
    sc["cut"] = W.draw(300)
    # half-close: the client shuts down its sending side after the last request and keeps reading (only
    # without lookahead, where the server meets the EOF after everything was answered and sent)
    sc["halfclose"] = W.chance(0.15) and sc["lookahead"] == 0
    sc["sched"], sc["trace"] = common.draw_sched(W, walk_p=0.3)
    return sc


def make_script(i, s, method):
    total = sum(s["sizes"])
    body = token_body(0, i, total)
    chunks = []
    pos = 0
    for z in s["sizes"]:
        chunks.append(body[pos:pos + z])
        pos += z
    if method == "HEAD":
        logical = s.get("head_equiv", 0)
        cl = {"exact": logical, "none": None, "larger": logical + 5, "smaller": max(0, logical - 3)}[s["cl"]]
    else:
        cl = {"exact": total, "none": None, "larger": total + 11, "smaller": max(0, total - 5)}[s["cl"]]
    hdrs = [("X-App", "r%d" % i)]
    if s["extra_headers"] >= 1:
        hdrs.append(("content-type", "text/plain; charset=utf-8"))
    if s["extra_headers"] >= 2:
        hdrs += [("Set-Cookie", "a=1"), ("set-cookie", "b=2")]
    if s["kind"] in ("write+file", "write+list") and not (len(chunks) >= 2 and chunks[0]):
        s = dict(s)
        s["kind"] = "write"
    script = {"status": s["status"], "headers": hdrs, "cl": cl, "chunks": chunks, "kind": s["kind"], "cl_name": s.get("cl_name", "Content-Length"),
              "has_close": not (s.get("plain_list") and s["kind"] == "list"),
              "sr_late": s["sr_late"] and s["kind"] in ("gen", "list"), "block_size": s["block_size"]}
    if s["exc_after_head"] and s["kind"] in ("gen", "list") and len(chunks) >= 2 and chunks[0]:
        script["raise_at"] = (("next", 1), AppExc)
        script["kind"] = "gen"
    elif s.get("exc_before_head"):
        script["raise_at"] = ("call", AppExc)
    elif s.get("recall") and s["kind"] in ("list", "gen"):
        # the application first announces something else (incl. a different length) and then replaces it
        # through the exc_info re-call before any output: only the second announcement counts
        script["exc_info_recall"] = (s["status"], [(a, b) for a, b in hdrs] + ([(script["cl_name"], str(cl))] if cl is not None else []))
        script["status"] = "200 OK"
        script["headers"] = [("X-First", "discarded")]
        script["cl"] = 77777
        script["recalled"] = True
    if s["kind"] in ("file", "ufile") and s.get("file_offset") and method != "HEAD":
        off = min(s["file_offset"], total)
        script["file_offset"] = off
        body = body[off:]
        if cl is not None:
            cl = {"exact": len(body), "larger": len(body) + 11, "smaller": max(0, len(body) - 5)}[s["cl"]]
            script["cl"] = cl
    if s.get("file_shrinks") and script["kind"] == "file" and s["cl"] in ("exact", "none") and method != "HEAD" and len(body) > 0 \
            and s["status"][:3] not in ("204", "304"):
        # the response is announced with the measured length and the file then delivers less: "too few bytes"
        n = min(s["file_shrinks"], len(body))
        script["file_shrinks"] = n
        cl = len(body)
        body = body[:len(body) - n]
    return script, body, cl, hdrs


def run_one(tapes, tier, scenario=None):
    sc = scenario if scenario is not None else gen(tapes.W)
    res = RunResult()
    res.scenario = sc
    knobs = dict(threads=sc["threads"], channel_request_lookahead=sc["lookahead"], send_bytes=sc["send_bytes"],
                 outbuf_overflow=sc["outbuf_overflow"], asyncore_use_poll=sc["use_poll"], ident=sc["ident"])
    net = NetConfig(sendbuf_len=sc["sendbuf_len"], sndbuf_cap=sc["sndbuf_cap"], p_partial_send=sc["p_partial"])
    sim = Simulation(tapes, knobs=knobs, net=net, sched=sc["sched"], trace=sc["trace"], horizon=60.0)
    k = sim.k
    scripts = {}
    plan = []
    stream = b""
    for i, q in enumerate(sc["reqs"]):
        script, body, cl, hdrs = make_script(i, q["script"], q["method"])
        path = "/r%d" % i
        scripts[path] = script
        rh = [("Host", "s")]
        if q["conn"]:
            rh.append(("Connection", q["conn"]))
        rb = b"in" if q["method"] == "POST" else None
        stream += build_request(q["method"], path, q["version"], rh, rb)
        plan.append({"i": i, "q": q, "script": script, "body": body, "cl": cl, "hdrs": hdrs, "path": path})
    # the observer request
    stream += build_request("GET", "/last", "1.1", [("Host", "s")])
    scripts["/last"] = {"chunks": [b"last-ok"], "cl": 7, "headers": [("X-App", "last")]}
    app = ScriptedApp(sim, scripts)
    sim.build(app)
    cut = sc["cut"] % max(1, len(stream))
    steps = [("send", stream[:cut]), ("sleep", 0.0005), ("send", stream[cut:])] if cut else [("send", stream)]
    if sc.get("halfclose"):
        steps.append(("fin",))
    sim.add_client(steps, cid=0)
    sim.run()

    # ---------------------------------------------------------------- oracle
    s = sim.conns.get(0)
    wire = bytes(s.wire)
    methods = [p["q"]["method"] for p in plan] + ["GET"]
    rs, probs = parse_stream(wire, methods, s.closed)
    finals = [r for r in rs if not r.interim]
    dead = False

    def cell(p):
        q = p["q"]
        sp = q["script"]
        return "%s/%s/%s/cl=%s/%s/%s" % (q["version"], q["conn"], q["method"], sp["cl"], p["script"]["kind"], sp["status"][:3])

    def v(clause, p, msg, disc=None):
        if p["script"].get("kind") == "write+file":
            disc = "write_then_file_wrapper"
        elif p["script"].get("kind") == "write+list":
            disc = "write_then_list:" + (disc or clause)
        elif p["script"].get("recalled"):
            disc = "exc_info_recall:" + (disc or "body")
        res.v(clause, disc or cell(p), "request %d [%s] sizes=%r late=%s: %s" % (p["i"], cell(p), p["q"]["script"]["sizes"], p["script"].get("sr_late"), msg))

    if any(r.interim for r in rs):
        res.v("interim", "unexpected", "an interim response appeared although no request asked for one")
    for p in plan:
        if p["script"].get("recalled"):
            p["script_status_override"] = p["q"]["script"]["status"]
    for i, p in enumerate(plan):
        if i >= len(finals):
            if not dead:
                v("missing", p, "no response on the wire (end=%s, closed=%s, problems=%r)" % (k.end_reason, s.closed, probs))
            break
        r = finals[i]
        q = p["q"]
        sp = p["script"]
        status = int((p.get("script_status_override") or sp["status"])[:3])
        failing = "raise_at" in sp
        bodiless = q["method"] == "HEAD" or status in (204, 304)
        if r.status is None:
            v("framing", p, "unparseable response head; stream problems %r" % (probs,))
            break
        if r.close_announced and r.keepalive_announced:
            v("persistence", p, "response announces both Connection: close and Keep-Alive: %r" % (r.get_all("Connection"),), disc="contradictory_connection_tokens")
        if sp.get("raise_at") and sp["raise_at"][0] == "call":
            # the application failed before any output: one complete 500 that announces closing, then EOF
            if r.status != 500 or not r.complete:
                v("failure", p, "application failed before output but the client got status %r (complete=%s)" % (r.status, r.complete), disc="no_500")
            elif not r.close_announced:
                v("persistence", p, "500 response does not announce Connection: close: %r" % (r.headers,), disc="500_without_close")
            if i + 1 < len(finals):
                v("persistence", p, "a further response follows the 500", disc="served_after_500")
            dead = True
            break
        if r.problems:
            v("framing", p, "head/body problems %r" % (r.problems,), disc="head:" + r.problems[0])
        if r.status != status:
            v("status", p, "status %r on the wire, application said %r" % (r.status, sp["status"]))
            break
        # fields
        got = [(n.lower(), val) for n, val in r.headers]
        for n, val in got:
            if n not in SERVER_FIELDS and (n, val) not in [(a.lower(), b) for a, b in p["hdrs"]]:
                v("fields", p, "field %r: %r is neither the application's nor a server field" % (n, val), disc="foreign_field:" + n)
        for a, b in p["hdrs"]:
            if got.count((a.lower(), b)) != [(x.lower(), y) for x, y in p["hdrs"]].count((a.lower(), b)):
                v("fields", p, "application field %r: %r missing or duplicated on the wire" % (a, b), disc="app_field_lost")
        if r.version != ("1.0" if q["version"] == "1.0" else "1.1"):
            v("fields", p, "response version %s for a %s request" % (r.version, q["version"]), disc="version")
        # expected body
        produced = p["body"]
        cl = p["cl"]
        if sp["kind"] in ("file", "ufile") and cl is not None:
            want = produced[:cl]
        elif cl is not None:
            want = produced[:cl]
        else:
            want = produced
        if bodiless:
            want = b""
        may_be_short = (not bodiless) and cl is not None and len(produced) < cl
        if r.complete:
            undelim = False
            if failing and r.framing == "chunked":
                v("framing", p, "chunked response was terminated although the application failed", disc="failing:terminated")
            if r.body != want and not (failing and want.startswith(r.body) and r.framing == "close"):
                v("body", p, "body on the wire (%d bytes, framing %s) != application's body (%d bytes): %r... vs %r..." % (
                    len(r.body), r.framing, len(want), r.body[:40], want[:40]))
        else:
            undelim = True
            if not (failing or may_be_short):
                v("framing", p, "response not delimited as announced (framing %s, %d body bytes) although the application completed normally" % (
                    r.framing, len(r.body)), disc="incomplete:" + str(r.framing))
            elif not want.startswith(r.body):
                v("body", p, "truncated body on the wire is not a prefix of the application's bytes", disc="truncated:not_prefix")
            elif may_be_short and not failing and len(r.body) != len(produced):
                v("body", p, "short response carries %d bytes, the application produced %d" % (len(r.body), len(produced)), disc="short:body")
        if r.get("Transfer-Encoding") is not None and r.get("Content-Length") is not None:
            v("framing", p, "response carries both Content-Length (%r) and Transfer-Encoding" % (r.get("Content-Length"),), disc="both_cl_and_te")
        if status == 204 and r.get("Transfer-Encoding") is not None:
            v("framing", p, "Transfer-Encoding on a 204 response", disc="te_on_204")
        if status == 204 and r.get("Content-Length") is not None:
            v("framing", p, "Content-Length on a 204 response", disc="cl_on_204")
        # persistence
        nxt = finals[i + 1] if i + 1 < len(finals) else None
        known_last = (q["conn"] == "close" and q["version"] == "1.1") or \
                     (q["version"] == "1.0" and (q["conn"] or "").lower() != "keep-alive") or \
                     (q["version"] == "1.0" and r.get("Content-Length") is None and not bodiless)
        announces_close = r.close_announced or (r.version == "1.0" and not r.keepalive_announced)
        if undelim or not r.complete:
            if nxt is not None:
                v("persistence", p, "response could not be delimited as announced but the connection was reused (next status %r)" % (nxt.status,), disc="reuse_after_undelimitable")
            elif not s.closed:
                v("persistence", p, "response could not be delimited as announced and the connection was left open", disc="open_after_undelimitable")
            dead = True
            break
        if known_last and not r.close_announced:
            v("persistence", p, "response known in advance to be the last does not carry Connection: close (headers %r)" % (r.headers,), disc="no_close_header")
        if failing and nxt is None:
            # failure after the head was sent: closing is what the property asks for,
            # even if the bytes already sent happen to form a complete response
            dead = True
            break
        if not announces_close:
            if nxt is None or nxt.status is None:
                v("persistence", p, "response does not announce closing%s but the next request was not served (closed=%s, problems=%r, end=%s)" % (
                    " (Keep-Alive)" if r.keepalive_announced else "", s.closed, probs, k.end_reason), disc="promised_persistence_broken")
                dead = True
                break
        else:
            # closing announced: whatever follows is not this property's business beyond well-formedness
            dead = True
            if nxt is not None and nxt.status is None:
                v("stream", p, "bytes after a response that announced closing are not a response: %r" % (wire[r.end:r.end + 40],), disc="garbage_after_closing_response")
            break
    if not dead and len(finals) == len(plan) + 1:
        last = finals[-1]
        if last.status != 200 or last.body != b"last-ok":
            res.v("observer", "wrong", "observer request answered %r %r" % (last.status, last.body[:30]))
    if probs and not res.violations:
        # bytes outside any response
        kinds = {pp[0] for pp in probs}
        if kinds - {"truncated_body", "unterminated_close_delimited"} or not dead:
            res.v("stream", "garbage:" + probs[0][0], "bytes on the connection lie outside a response: %r; wire tail %r" % (probs, wire[-80:]))
    lp = common.log_problems(sim, patterns=("uncaptured python exception", "Unexpected exception", "Exception when servicing"))
    if lp:
        from .pipeline import exc_disc
        res.v("escaped_exception", exc_disc(lp[0]), "server logged: %s\n%s" % (lp[0][1], lp[0][2]))
    if k.end_reason == "step_cap":
        res.harness_error = "step cap reached"
    if k.harness_error:
        res.harness_error = k.harness_error
    res.digest = k.digest()
    res.stats = common.base_stats(sim)
    res.stats["cells"] = [cell(p) for p in plan]
    res.interleaving = k.switch_hash.hexdigest()
    res.nontrivial = len(plan) >= 1 and len(finals) >= 1
    res.sample = {"requests": [cell(p) + " sizes=%r" % (p["q"]["script"]["sizes"],) for p in plan],
                  "responses": [(r.status, r.framing, len(r.body), r.complete, r.close_announced) for r in finals],
                  "closed": s.closed, "sched": sc["sched"], "end": k.end_reason}
    return res
