"""C12 - output buffering is bounded; fast producers are paused and always released."""
from sim.harness import Simulation
from sim.shims import NetConfig
from sim.runner import RunResult
from models.r2_response import parse_stream
from . import common
from .common import ScriptedApp, build_request, token_body

PROPERTY = "C12"
LEVEL = "exploration"
BUDGET = {"quick": 60, "thorough": 600}
EVIDENCE = {
    "rule": "one producing application (generator or write()) with 2-40 writes of sizes below/at/above the mark, "
            "outbuf_high_watermark in {0,1,50,1000}, send_bytes in {1,9,1000}, socket buffer 40..65536, drain pattern "
            "(eager, slow, stall-then-resume, stall forever, reset after n bytes, send() failing with a non-disconnect error from its n-th call on), half the runs with the poll timeout "
            "infinite, all scheduler arms; pending output is accounted externally (bytes handed over by the app minus "
            "bytes accepted by the socket); distinct = distinct history digest; non-trivial = the producer was parked "
            "on the watermark at least once",
    "real": common.REAL, "stub": common.STUB,
    "assumptions": [
        "a chunk counts as accepted when the server asks the application for the next one (or write() returns)",
        "'one write' in the bound is the largest single hand-over, including the response head",
        "after a reset the application may be asked for at most one more chunk (the one already in flight)",
    ],
}


def gen(W):
    sc = {}
    sc["mark"] = W.choice([1000, 50, 1, 0])
    sc["send_bytes"] = W.choice([1, 9, 1000])
    sc["sendbuf_len"] = W.choice([8192, 512, 64, 8])
    sc["sndbuf_cap"] = W.choice([65536, 4096, 300, 40])
    sc["outbuf_overflow"] = W.choice([1048576, 100, 1])
    sc["use_poll"] = W.chance(0.3)
    sc["infinite"] = W.chance(0.5)
    sc["kind"] = W.choice(["gen", "write"])
    m = max(sc["mark"], 1)
    n = 2 + W.draw(12)
    sizes = []
    for _ in range(n):
        sizes.append(max(1, W.choice([m // 2, m - 1, m, m + 1, 2 * m + 3, 5, 1, 3 * m + 7])))
    sc["sizes"] = sizes
    sc["sleep_at"] = {str(W.draw(n)): W.choice([0.0001, 0.005])} if W.chance(0.3) else {}
    sc["drain"] = W.choice(["eager", "slow", "stall_resume", "stall_forever", "rst", "send_error"])
    total = sum(sizes)
    sc["after_bytes"] = W.draw(total + 150)
    # send_error: the n-th send() on the connection (and, when persistent, every later one) raises an error that
    # is not a "peer is gone" code, whichever thread makes the call; the reader itself is eager
    sc["fault_send"] = W.draw(14)
    sc["fault_errno"] = W.choice(["ETIMEDOUT", "EHOSTUNREACH", "ENOBUFS", "EIO"])
    sc["fault_persistent"] = W.chance(0.6)
    sc["log_socket_errors"] = W.chance(0.6)
    sc["p_partial"] = W.choice([0.0, 0.5])
    sc["lookahead"] = W.choice([0, 1])
    sc["follow"] = W.chance(0.3)
    sc["sched"], sc["trace"] = common.draw_sched(W)
    return sc


def run_one(tapes, tier, scenario=None):
    sc = scenario if scenario is not None else gen(tapes.W)
    res = RunResult()
    res.scenario = sc
    knobs = dict(threads=1, outbuf_high_watermark=sc["mark"], send_bytes=sc["send_bytes"],
                 outbuf_overflow=sc["outbuf_overflow"], asyncore_use_poll=sc["use_poll"],
                 channel_request_lookahead=sc["lookahead"], log_socket_errors=sc.get("log_socket_errors", True))
    net = NetConfig(sendbuf_len=sc["sendbuf_len"], sndbuf_cap=sc["sndbuf_cap"], p_partial_send=sc["p_partial"])
    sim = Simulation(tapes, knobs=knobs, net=net, sched=sc["sched"], trace=sc["trace"],
                     infinite_poll=sc["infinite"], horizon=120.0)
    k = sim.k
    sizes = sc["sizes"]
    body = token_body(0, 0, sum(sizes))
    chunks = []
    pos = 0
    for s in sizes:
        chunks.append(body[pos:pos + s])
        pos += s
    script = {"chunks": chunks, "cl": len(body), "kind": sc["kind"],
              "sleeps": {int(a): b for a, b in sc["sleep_at"].items()}}
    samples = []  # (accepted_body_bytes, wire_len, internal_total)

    app = ScriptedApp(sim, {"/p": script, "/f": {"chunks": [b"next"], "cl": 4}})
    sim.build(app)

    # sample at every application step: hook the kernel log
    orig_log = k.log
    acc = {"body": 0}

    def log(kind, *d):
        seq = orig_log(kind, *d)
        if kind == "app" and d[0] == 0 and d[1] == 0 and d[2] in ("yield", "wrote", "end"):
            if d[2] == "yield":
                n = d[3]
                accepted = sum(sizes[:n])  # chunks 0..n-1 were handed over before chunk n is produced
            elif d[2] == "wrote":
                accepted = sum(sizes[:d[3] + 1])
            else:
                rec = app.calls[0]
                accepted = sum(sizes[:rec["chunks_done"]]) if sc["kind"] == "write" else None
            if accepted is not None:
                s = sim.conns.get(0)
                ch = sim.chan_by_cid.get(0)
                samples.append((accepted, len(s.wire) if s else 0, ch.total_outbufs_len if ch else -1, seq))
        return seq

    k.log = log
    stream = build_request("GET", "/p", "1.1", [("Host", "x")])
    if sc["follow"]:
        stream += build_request("GET", "/f", "1.1", [("Host", "x")])
    steps = [("send", stream)]
    d = sc["drain"]
    if d == "slow":
        steps.insert(0, ("mode", "slow", max(3, sc["sndbuf_cap"] // 3), 0.0002))
    elif d == "stall_resume":
        steps += [("wait", ("bytes", sc["after_bytes"]), 0.5), ("mode", "stalled"), ("sleep", 0.3), ("mode", "eager")]
    elif d == "stall_forever":
        steps += [("wait", ("bytes", sc["after_bytes"]), 0.5), ("mode", "stalled")]
    elif d == "rst":
        steps += [("wait", ("bytes", sc["after_bytes"]), 0.5), ("rst",)]
    if d == "send_error":
        import errno as _errno
        code = getattr(_errno, sc.get("fault_errno", "ETIMEDOUT"))
        for i in range(sc["fault_send"], sc["fault_send"] + (3000 if sc.get("fault_persistent") else 1)):
            sim.add_fault(0, "send", i, code)
    sim.add_client(steps, cid=0)
    snap = {}

    def before_teardown(sim):
        ch = sim.chan_by_cid.get(0)
        if ch is not None:
            snap.update(pending=ch.total_outbufs_len, waiters=len(ch.outbuf_lock.waiters),
                        connected=ch.connected, requests=len(ch.requests))

    k.on_finish = lambda k: before_teardown(sim)

    def on_idle(k, quiescent):
        s = sim.conns.get(0)
        if s is not None and s.closed:
            return "stop"
        return "continue"

    k.on_idle = on_idle
    sim.run()

    # ---------------------------------------------------------------- oracle
    degenerate = ""
    if sc["mark"] == 0:
        degenerate = "+mark=0"
    elif sc["send_bytes"] > sc["mark"]:
        degenerate = "+send_bytes>mark"
    s = sim.conns.get(0)
    wire = bytes(s.wire) if s else b""
    he = wire.find(b"\r\n\r\n")
    head_len = he + 4 if he >= 0 else None
    rec = app.calls[0] if app.calls else None
    parked = k.probes.get("cv_wait:channel:67", 0)
    if head_len is not None:
        bound = sc["mark"] + max(max(sizes), head_len)
        worst = 0
        for accepted, wl, internal, seq in samples:
            pending = head_len + accepted - wl
            worst = max(worst, pending)
            if pending > bound:
                res.v("bound", "pending_exceeds_mark_plus_write" + degenerate,
                      "pending output %d > mark %d + one write %d (accepted body %d, head %d, on wire %d, internal total %d)" % (
                          pending, sc["mark"], max(max(sizes), head_len), accepted, head_len, wl, internal))
                break
        # wire is a prefix of the app's bytes
        wbody = wire[head_len:head_len + len(body)]
        if body[:len(wbody)] != wbody:
            res.v("integrity", "body_corrupted" + degenerate, "wire body is not a prefix of the application's bytes at offset %d" % (
                next(i for i in range(len(wbody)) if wbody[i] != body[i]),))
    complete = head_len is not None and len(wire) >= head_len + len(body)
    reads_all = d in ("eager", "slow", "stall_resume")
    if k.livelock:
        res.v("liveness", "livelock" + degenerate, "I/O thread spins while the producer waits: channel %r" % (snap,))
    elif reads_all and not complete:
        if snap.get("waiters"):
            what = "producer_parked_forever"
        else:
            what = "response_incomplete"
        res.v("liveness", what + degenerate, "client drains everything (%s) but only %d of %d bytes were delivered; end=%s channel=%r threads=%r" % (
            d, len(wire), (head_len or 0) + len(body), k.end_reason, snap, sim.final_threads))
    if d in ("rst", "send_error") and s is not None and rec is not None:
        rst_seq = next((e[0] for e in k.history if e[2] == ("c_rst" if d == "rst" else "fault")), None)
        close_seq = s.close_log[0][0] if s.close_log else None
        if rst_seq is not None and not complete:
            if close_seq is None:
                res.v("release", "never_torn_down" + degenerate, "client reset / send() failed but the server never closed the connection (end=%s, channel %r)" % (k.end_reason, snap))
            else:
                later = [e for e in k.history if e[2] == "app" and e[3] == 0 and e[4] == 0 and e[5] in ("yield", "wrote") and e[0] > close_seq]
                if len(later) > 1:
                    res.v("release", "chunks_after_disconnect", "%d chunks produced after the connection was torn down" % len(later))
                if snap.get("waiters"):
                    res.v("release", "producer_still_parked", "producer still parked after teardown: %r" % (snap,))
                if rec["end"] is None and k.end_reason in ("idle", "quiescent"):
                    res.v("release", "request_not_aborted" + degenerate, "application call never ended after the reset (end=%s)" % k.end_reason)
                elif app.close_counts.get((0, 0), 0) != 1 and rec["end"] is not None and rec["returned"]:
                    res.v("release", "iterable_not_closed", "close() called %d times" % app.close_counts.get((0, 0), 0))
    for t in sim.final_threads:
        if t[3] is not None:
            res.v("thread_died", t[0], "thread %s died with %s" % (t[0], t[3]))
        elif t[2] and str(t[4] or "").startswith("sock."):
            # the server's sockets are non-blocking: nobody may ever sleep inside send()/recv()
            res.v("thread_stuck", "blocked_in_" + str(t[4]), "thread %s is asleep inside a socket call (%s) at the end of the run" % (t[0], t[4]))
    lp = common.log_problems(sim)
    if lp:
        res.v("escaped_exception", "logged", "server logged: %s\n%s" % (lp[0][1], lp[0][2]))
    if k.end_reason == "step_cap":
        res.harness_error = "step cap reached"
    if k.harness_error:
        res.harness_error = k.harness_error
    res.digest = k.digest()
    res.stats = common.base_stats(sim)
    res.stats["cells"] = ["mark=%d/sb=%d/%s/%s" % (sc["mark"], sc["send_bytes"], sc["kind"], d)]
    res.interleaving = k.switch_hash.hexdigest()
    res.nontrivial = parked > 0
    res.sample = {"mark": sc["mark"], "send_bytes": sc["send_bytes"], "sizes": sizes, "kind": sc["kind"], "drain": d,
                  "after_bytes": sc["after_bytes"], "sendbuf_len": sc["sendbuf_len"], "sndbuf_cap": sc["sndbuf_cap"],
                  "infinite_poll": sc["infinite"], "sched": sc["sched"], "trace": sc["trace"],
                  "producer_parked": parked, "end": k.end_reason,
                  "wire_bytes": len(wire), "steps": k.steps}
    return res
