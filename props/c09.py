"""C09 - application failures are contained and the iterable is always closed."""
import hashlib

from sim.harness import Simulation
from sim.shims import NetConfig
from sim.runner import RunResult
from sim.tape import Tapes
from models.r2_response import parse_stream
from . import common
from .common import ScriptedApp, build_request, token_body, AppExc, AppBaseExc

PROPERTY = "C09"
LEVEL = "fault_enumeration"
BUDGET = {"quick": 40, "thorough": 540}
# one evaluation of this family is a whole enumeration (hundreds of simulated runs, each compared in the
# determinism self-test): fewer seeds than the default 6 / 40 already compare thousands of runs
SELFTEST_N = {"quick": 2, "thorough": 10}
SECRET = "SeCrEt-7f3a"
EXC = ["Exception", "FileNotFoundError", "ConnectionResetError", "BaseException", "SystemExit"]
EVIDENCE = {
    "rule": "scenario = one application script (list / generator / write() / wsgi.file_wrapper seekable or not; status "
            "200/204/304; Content-Length absent/exact/larger/smaller; 0-4 chunks; late start_response) x request (GET/HEAD/POST, "
            "1.0/1.1, keep-alive) followed by a second request, x expose_tracebacks x log_socket_errors; the script's steps "
            "are numbered (call, start_response, each next/write, end, close) and EVERY step x EVERY exception class "
            + "/".join(EXC) + " is injected in turn, and independently a client reset / half-close at EVERY server send "
            "call of the fault-free run; each under a seeded schedule; one evaluation = one injected run; distinct = distinct "
            "history digest; non-trivial = the injected fault fired",
    "real": common.REAL, "stub": common.STUB,
    "assumptions": [
        "whether output had begun is read off the wire: the first bytes are either the application's own status line (marked by an X-App field) or a server-generated 500",
        "within each scenario the placement space (steps x exception classes, sends x {RST, FIN}) is enumerated completely",
        "a probe connection opened after the failure must be served, which is how 'worker and loop survive' is observed",
    ],
}


def factories():
    class Sx(SystemExit):
        pass
    return {
        "Exception": lambda: AppExc(SECRET),
        "FileNotFoundError": lambda: FileNotFoundError(2, SECRET),
        "ConnectionResetError": lambda: ConnectionResetError(104, SECRET),
        "BaseException": lambda: AppBaseExc(SECRET),
        "SystemExit": lambda: SystemExit(SECRET),
    }


FACT = factories()
SURROGATE = "bad-filename-\udcff-" + SECRET  # what os.fsdecode() yields for an undecodable file name
for _k, _f in FACT.items():
    _f.__name__ = _k


def gen(W):
    sc = {}
    sc["threads"] = W.choice([1, 2])
    sc["expose"] = W.chance(0.3)
    sc["log_socket_errors"] = W.chance(0.5)
    sc["kind"] = W.choice(["gen", "list", "write", "file", "ufile", "sized"])
    sc["status"] = W.choice(["200 OK", "204 No Content", "304 Not Modified"], p0=0.8)
    n = W.draw(5)
    sc["sizes"] = [W.choice([7, 0, 1, 300, 3000]) for _ in range(n)]
    total = sum(sc["sizes"])
    sc["cl"] = W.choice(["exact", "none", "larger", "smaller"])
    sc["sr_late"] = W.chance(0.3)
    sc["method"] = W.choice(["GET", "HEAD", "POST"], p0=0.7)
    sc["version"] = W.choice(["1.1", "1.0"], p0=0.8)
    sc["keepalive10"] = W.chance(0.5)
    sc["lookahead"] = W.choice([0, 1])
    sc["sendbuf_len"] = W.choice([8192, 100])
    sc["sndbuf_cap"] = W.choice([65536, 500])
    sc["send_bytes"] = W.choice([18000, 1])
    sc["use_poll"] = W.chance(0.3)
    sc["sched"], sc["trace"] = common.draw_sched(W, walk_p=0.5)
    sc["sub_seed"] = W.draw(1 << 30)
    # the failure may also come from the server's own handling of the application's data: a header value
    # that cannot be encoded makes the first write raise inside the server
    sc["unencodable_header"] = W.chance(0.12)
    # the request queued behind may hand over a file as well (two files in the output queue at teardown)
    sc["second_file"] = W.chance(0.25)
    sc["surrogate_message"] = W.chance(0.15)
    sc["client_stalls"] = W.chance(0.3)
    # a low mark parks the producing worker on the output buffer; a disconnect then has to release it
    sc["watermark"] = W.choice([16777216, 200, 0], p0=0.6)
    if sc["watermark"] != 16777216:
        # (a client that never reads keeps such a producer parked for good - legitimately - and with it the
        # worker the probe connection needs)
        sc["client_stalls"] = False
    return sc


def steps_of(sc):
    st = ["call", "sr"]
    n = len(sc["sizes"])
    if sc["kind"] == "write":
        st += [["write", i] for i in range(n)]
        st += ["end", "close"]
    elif sc["kind"] in ("gen", "list", "sized"):
        if sc["kind"] == "sized":
            st += ["len"]
        st += [["next", i] for i in range(n)]
        st += ["end", "close"]
    elif sc["kind"] == "file":
        st += ["file_read", "file_close"]
    return st


def one_run(sc, placement, sub_id):
    tapes = Tapes(sc["sub_seed"], "C09sub", sub_id)
    knobs = dict(threads=sc["threads"], expose_tracebacks=sc["expose"], log_socket_errors=sc["log_socket_errors"],
                 channel_request_lookahead=sc["lookahead"], send_bytes=sc["send_bytes"],
                 asyncore_use_poll=sc["use_poll"], outbuf_high_watermark=sc.get("watermark", 16777216))
    net = NetConfig(sendbuf_len=sc["sendbuf_len"], sndbuf_cap=sc["sndbuf_cap"])
    sim = Simulation(tapes, knobs=knobs, net=net, sched=sc["sched"], trace=sc["trace"], horizon=80.0)
    k = sim.k
    body = token_body(0, 0, sum(sc["sizes"]))
    chunks = []
    pos = 0
    for s_ in sc["sizes"]:
        chunks.append(body[pos:pos + s_])
        pos += s_
    total = len(body)
    cl = {"exact": total, "none": None, "larger": total + 11, "smaller": max(0, total - 5)}[sc["cl"]]
    app_headers = [("X-App", "yes")]
    if sc.get("unencodable_header"):
        app_headers.append(("X-Owner", "Zo\u0142a \u20ac " + SECRET))
    script = {"status": sc["status"], "headers": app_headers, "cl": cl, "chunks": chunks,
              "kind": sc["kind"], "sr_late": sc["sr_late"] and sc["kind"] in ("gen", "list")}
    if sc["kind"] == "sized":
        # a generator-backed iterable that also has a __len__ (application code: it may raise)
        script["kind"] = "gen"
        script["sized"] = True
    if sc["method"] == "POST":
        script["read_input"] = True
    exc_cls = None
    if placement and placement[0] == "combo":
        script["raise_at"] = ("file_close", FACT[placement[3]])
    if placement and placement[0] == "exc":
        step = placement[1]
        step = tuple(step) if isinstance(step, list) else step
        exc_cls = placement[2]
        fac = FACT[exc_cls]
        if sc.get("surrogate_message") and exc_cls == "Exception":
            def fac():
                return AppExc(SURROGATE)
            fac.__name__ = "Exception"
        script["raise_at"] = (step, fac)
        if script["kind"] == "list":
            script["kind"] = "gen"
    second = {"chunks": [b"second"], "cl": 6}
    if sc.get("second_file"):
        second = {"chunks": [token_body(0, 1, 3000)], "cl": 3000, "kind": "file"}
    scripts = {"/a": script, "/b": second, "/probe": {"chunks": [b"probe-ok"], "cl": 8}}
    app = ScriptedApp(sim, scripts)
    sim.build(app)
    if placement and placement[0] in ("net", "combo"):
        sim.add_fault(0, "send", placement[1], -1 if placement[2] == "RST" else -3)
    hdrs = [("Host", "s")]
    if sc["version"] == "1.0" and sc["keepalive10"]:
        hdrs.append(("Connection", "Keep-Alive"))
    rb = b"input-body" if sc["method"] == "POST" else None
    stream = build_request(sc["method"], "/a", sc["version"], hdrs, rb)
    stream += build_request("GET", "/b", "1.1", [("Host", "s")])
    csteps = [("send", stream)]
    if (sc.get("client_stalls") and placement and placement[0] == "net") or \
            (placement and placement[0] == "combo" and sc.get("watermark", 16777216) == 16777216):
        # (with a low mark a client that never reads keeps the producer parked for good, legitimately)
        csteps = [("mode", "stalled")] + csteps
    sim.add_client(csteps, cid=0)
    state = {"probe": None}

    def on_idle(k, quiescent):
        if state["probe"] is None:
            state["probe"] = sim.add_client([("send", build_request("GET", "/probe", "1.1", [("Host", "s")]))], cid=99, start=0.001)
            return "injected"
        s = sim.conns.get(99)
        if s is not None and b"probe-ok" in s.wire:
            return "stop"
        return "continue"

    k.on_idle = on_idle
    snap = {}

    def on_finish(k):
        ch = sim.chan_by_cid.get(0)
        snap["chan"] = None if ch is None else {"connected": ch.connected, "requests": len(ch.requests),
                                                "pending": ch.total_outbufs_len, "will_close": ch.will_close,
                                                "close_when_flushed": ch.close_when_flushed}

    k.on_finish = on_finish
    sim.run()

    viols = []
    ptag = "none"
    if placement:
        if placement[0] == "exc":
            st = placement[1]
            ptag = "%s@%s" % (exc_cls, st if isinstance(st, str) else st[0])
        elif placement[0] == "combo":
            ptag = "client_%s+%s@file_close" % (placement[2], placement[3])
        else:
            ptag = "client_%s" % placement[2]

    def v(clause, msg, disc=None):
        viols.append((clause, disc or ptag, "script %s/%s cl=%s sizes=%r %s HTTP/%s expose=%s log_socket_errors=%s; placement %r: %s" % (
            sc["kind"], sc["status"][:3], sc["cl"], sc["sizes"], sc["method"], sc["version"], sc["expose"], sc["log_socket_errors"], placement, msg)))

    fired = any(e[2] == "app_raise" for e in k.history) or any(e[2] == "fault" for e in k.history)
    if sc.get("unencodable_header") and not placement:
        # treated like an application failure before output
        placement = ["exc", "header-encoding", "UnicodeEncodeError"]
        ptag = "UnicodeEncodeError@header"
        fired = True
    s = sim.conns.get(0)
    wire = bytes(s.wire) if s else b""
    rec = app.calls[0] if app.calls else None
    # survival
    io = [t for t in sim.final_threads if t[0] == "io"][0]
    if not io[2] or io[3] is not None:
        v("loop_died", "I/O thread gone")
    for t in sim.final_threads:
        if t[1] == "worker" and (not t[2] or t[3] is not None):
            v("worker_died", "worker %s alive=%s exc=%s" % (t[0], t[2], t[3]))
    ps = sim.conns.get(99)
    if ps is None or b"probe-ok" not in ps.wire:
        v("probe_unserved", "a connection opened after the failure was not served (end=%s, threads=%r)" % (k.end_reason, sim.final_threads))
    # leak
    if not sc["expose"] and (SECRET.encode() in wire or b"Traceback" in wire):
        v("traceback_leak", "exception text on the wire although expose_tracebacks is off: %r" % (wire[-200:],))
    # what the wire shows
    if placement and placement[0] == "exc" and placement[1] == "file_close":
        # the file's close() runs on the I/O thread after its data has been sent (or at teardown): the failure
        # must be contained (checked above: loop, workers, probe) and the response must be intact; whether the
        # connection is then kept is not prescribed
        if s is not None:
            rs, probs = parse_stream(wire, [sc["method"], "GET"], s.closed)
            finals = [r for r in rs if not r.interim]
            if not finals or finals[0].status is None or (finals[0].get("X-App") == "yes" and not finals[0].complete and not s.closed):
                v("file_close_failure", "response damaged after the file's close() raised: %r" % (probs,))
    elif placement and placement[0] == "exc" and fired and s is not None:
        rs, probs = parse_stream(wire, [sc["method"], "GET"], s.closed)
        finals = [r for r in rs if not r.interim]
        calls_b = [c for c in app.calls if c["path"] == "/b"]
        if not s.closed:
            v("wedged", "connection still open after the application failed: %d bytes on the wire, channel %r, end=%s" % (len(wire), snap.get("chan"), k.end_reason))
        elif not finals:
            v("silent_close", "connection closed without any response (no 500)")
        else:
            r0 = finals[0]
            if r0.get("X-App") == "yes":
                # output had begun: truncated prefix, then EOF
                want = body if cl is None else body[:cl]
                if sc["method"] == "HEAD" or sc["status"][:3] in ("204", "304"):
                    want = b""
                if not want.startswith(r0.body):
                    v("after_output", "bytes after the failure are not a prefix of the application's body: %r" % (r0.body[:60],))
                if r0.framing == "chunked" and r0.complete:
                    v("after_output", "chunked response was terminated although the application failed", disc=ptag + ":terminated")
                if len(finals) > 1:
                    v("after_output", "a further response (%d) follows the failed one" % finals[1].status, disc=ptag + ":further_response")
            elif r0.status == 500:
                if not r0.complete or probs:
                    v("before_output", "500 response is not complete: %r" % (probs,))
                if not r0.close_announced:
                    v("before_output", "500 response does not announce Connection: close", disc=ptag + ":no_close_header")
                if len(finals) > 1:
                    v("before_output", "a further response follows the 500", disc=ptag + ":further_response")
                if rec is not None and any(e[2] == "send" and e[3] == 0 for e in k.history if e[0] < (rec["begin"] or 0)):
                    pass
            else:
                v("unexpected_response", "first response is %r without the application's marker" % (r0.status,))
        raise_seq = next((e[0] for e in k.history if e[2] == "app_raise"), None)
        if placement[1] == "file_read":
            # the file is read by the I/O thread after the task has returned: a request that was already executed
            # when the read failed was not executed *after* the failure
            # (nor was one whose task a worker had already taken from the pool before the I/O loop was back in its
            # poll after the failure: that worker may have passed its own 'still connected' test before the teardown)
            back = next((x[0] for x in k.history if raise_seq is not None and x[0] > raise_seq and x[1] == "io" and x[2] in ("select", "poll")), None)
            pops = [x[0] for x in k.history if x[2] == "task_pop" and x[3] == 0]
            calls_b = [c for c in calls_b if back is not None and c["begin"] is not None and c["begin"] > back
                       and max([q for q in pops if q < c["begin"]] or [0]) > back]
        if calls_b:
            v("executed_after_failure", "the next request on the connection was executed after the failure")
    # every file handed over must be closed by the time the connection is gone
    if k.end_reason in ("idle", "quiescent") and s is not None and s.closed:
        for c in app.calls:
            f = c.get("file")
            if f is not None and c["returned"] and getattr(f, "closed_count", 1) == 0 and c is not rec:
                v("file_not_closed", "file handed to wsgi.file_wrapper by %s was never closed although the connection is gone" % c["path"], disc=ptag + ":second_file")
    # close() exactly once
    if rec is not None:
        n = app.close_counts.get((0, 0), 0)
        if sc["kind"] in ("file", "ufile"):
            f = rec.get("file")
            if f is not None and rec["returned"]:
                if f.closed_count == 0 and (k.end_reason in ("idle", "quiescent")):
                    v("file_not_closed", "file handed to wsgi.file_wrapper was never closed (conn closed=%s)" % (s.closed if s else None))
                elif sc["kind"] == "ufile" and f.closed_count > 1:
                    # a file without seek/tell is never handed to the channel: the task iterates the wrapper and
                    # closes it like any other iterable - exactly once
                    v("close_count", "close() of the iterated wsgi.file_wrapper result reached the application's file %d times" % f.closed_count, disc=ptag + ":ufile:%d" % f.closed_count)
        elif rec["returned"]:
            if n != 1 and k.end_reason in ("idle", "quiescent"):
                v("close_count", "close() of the application's iterable called %d times" % n, disc=ptag + ":%d" % n)
        elif n:
            v("close_count", "close() called although the application callable raised", disc=ptag + ":spurious")
    herr = "step cap" if k.end_reason == "step_cap" else k.harness_error
    sends = s.calls.get("send", 0) if s is not None else 0
    info = {"digest": k.digest(), "fired": fired, "sends": sends, "stats": common.base_stats(sim), "herr": herr,
            "end": k.end_reason, "inter": k.switch_hash.hexdigest()}
    return viols, info


def run_one(tapes, tier, scenario=None):
    sc = scenario if scenario is not None else gen(tapes.W)
    res = RunResult()
    res.scenario = sc
    subs = []
    only = sc.get("only_placement")
    if only is not None:
        todo = [(only["id"], only["placement"])]
    else:
        v0, info0 = one_run(sc, None, 0)
        for clause, disc, msg in v0:
            res.v(clause, "faultfree:" + disc, msg)
        subs.append(info0)
        todo = []
        i = 1
        for st in steps_of(sc):
            for ec in EXC:
                if st in ("file_close", "file_read") and ec in ("BaseException", "SystemExit"):
                    # a handed-over file is closed by the I/O thread, where SystemExit/KeyboardInterrupt are the
                    # server's own shutdown signal by design; only Exception classes are injected there
                    continue
                todo.append((i, ["exc", st, ec]))
                i += 1
        for n in range(min(info0["sends"], 12)):
            for what in ("RST", "FIN"):
                todo.append((i, ["net", n, what]))
                i += 1
        if sc["kind"] == "file":
            # a failing file close() *and* a client that vanishes while files are still queued
            for n in range(min(info0["sends"], 4)):
                for ec in ("Exception", "FileNotFoundError"):
                    todo.append((i, ["combo", n, "RST", ec]))
                    i += 1
    first_bad = None
    import os, time
    dl = float(os.environ.get("VERIF_RUN_DEADLINE", "0") or 0)
    for sid, pl in todo:
        if dl and time.time() > dl:
            break
        viols, info = one_run(sc, pl, sid)
        subs.append(info)
        if info["herr"]:
            res.harness_error = info["herr"]
        for clause, disc, msg in viols:
            res.v(clause, disc, msg)
            if first_bad is None:
                first_bad = {"id": sid, "placement": pl}
        if len(res.violations) > 15:
            break
    if first_bad is not None and only is None:
        sc2 = dict(sc)
        sc2["only_placement"] = first_bad
        res.scenario = sc2
    res.digest = hashlib.sha256("".join(s["digest"] for s in subs).encode()).hexdigest()
    agg = {"steps": 0, "switches": 0, "sim_seconds": 0.0, "probes": {}, "faults": {}, "end": subs[-1]["end"]}
    for s in subs:
        st = s["stats"]
        agg["steps"] += st["steps"]
        agg["switches"] += st["switches"]
        agg["sim_seconds"] += st["sim_seconds"]
        for kk, vv in st["probes"].items():
            agg["probes"][kk] = agg["probes"].get(kk, 0) + vv
        for kk, vv in st["faults"].items():
            agg["faults"][kk] = agg["faults"].get(kk, 0) + vv
    agg["probes"]["placements_run"] = len(subs)
    agg["probes"]["placements_fired"] = sum(1 for s in subs if s["fired"])
    agg["faults"]["app_exc"] = sum(1 for sid, pl in todo if pl and pl[0] == "exc")
    res.stats = agg
    res.subruns = [(s["digest"], bool(s["fired"])) for s in subs]
    res.interleaving = subs[-1]["inter"]
    res.nontrivial = any(s["fired"] for s in subs)
    res.sample = {"script": {kk: sc[kk] for kk in ("kind", "status", "sizes", "cl", "sr_late", "method", "version")},
                  "expose_tracebacks": sc["expose"], "log_socket_errors": sc["log_socket_errors"],
                  "sched": sc["sched"], "trace": sc["trace"], "steps": steps_of(sc),
                  "placements_run": len(subs), "placements_fired": sum(1 for s in subs if s["fired"]),
                  "example_placements": [t[1] for t in todo[:2] + todo[-2:]]}
    return res
