"""C15 - untrusted peers cannot influence connection metadata."""
import hashlib

from sim.harness import Simulation
from sim.shims import NetConfig
from sim.runner import RunResult
from sim.tape import Tapes
from . import common, proxygen
from .common import ScriptedApp, build_request

PROPERTY = "C15"
LEVEL = "exploration"
BUDGET = {"quick": 25, "thorough": 480}
KEYS = ["REMOTE_ADDR", "REMOTE_HOST", "REMOTE_PORT", "SERVER_NAME", "SERVER_PORT", "HTTP_HOST", "wsgi.url_scheme"]
EVIDENCE = {
    "rule": "one request per pair of runs: generated Forwarded / X-Forwarded-{For,Host,Proto,Port,By} values (hop lists 0-5, "
            "IPv4/IPv6/port forms, quoting, degenerate elements) x configuration (trusted_proxy None or an address different "
            "from the peer, every allowed trusted_proxy_headers subset, trusted_proxy_count 1-4, clear_untrusted_proxy_headers "
            "on/off; trusted_proxy values incl. the unspecified addresses 0.0.0.0 / :: ) x peer address (TCP peers incl. look-alikes of the trusted address, unix-domain peers); the same seed is run twice in the simulator - with the proxy headers and with them "
            "deleted - and the two environs are compared; one evaluation = one pair; distinct = distinct (configuration, "
            "headers) hash; non-trivial = at least two proxy header kinds were sent",
    "real": common.REAL, "stub": common.STUB,
    "assumptions": [
        "relational (two-run) oracle: no model of the proxy-header semantics is needed for an untrusted peer",
        "trusted_proxy='*' is excluded as the property says",
    ],
}


def gen(W):
    sc = {}
    sc["trusted_proxy"] = W.choice([None, "192.0.2.10", "10.9.9.9", "0.0.0.0", "::", "[::]", "::1"])
    sc["peer"] = W.choice(["203.0.113.5", "192.0.2.11", "10.9.9.90", "127.0.0.1"])
    if sc["trusted_proxy"] and W.chance(0.5):
        # peers that differ from the trusted address by a prefix, a suffix, one character, a mapped form ...
        t = sc["trusted_proxy"]
        sc["peer"] = W.choice(["1" + t, "2" + t, t + "0", t + "1", t[1:], t[:-1], "::ffff:" + t, t.replace(".", ".0", 1),
                               t[:-1] + ("1" if t[-1] != "1" else "2"), "[" + t + "]", t + ".", " " + t, t.upper() + "a"])
    sc["clear"] = W.chance(0.6)
    sc["count"] = 1 + W.draw(4)
    sc["log_untrusted"] = W.chance(0.2)
    if sc["trusted_proxy"]:
        if W.chance(0.3):
            sc["tph"] = ["forwarded"]
        else:
            sc["tph"] = [k for k in proxygen.XKINDS if W.chance(0.6)]
    else:
        sc["tph"] = []
    hdrs, nh = proxygen.gen_headers(W)
    sc["headers"] = {k: v["value"] for k, v in hdrs.items()}
    sc["host"] = W.choice(["app.example", "app.example:8080"])
    sc["url_scheme"] = W.choice(["http", "https"])
    sc["sub_seed"] = W.draw(1 << 30)
    # before the request under test, the trusted proxy itself may have sent a request carrying the same headers
    sc["trusted_prelude"] = bool(sc["trusted_proxy"]) and W.chance(0.35)
    # a unix-domain listener: every peer is reported as 'localhost', which is not the configured proxy either
    sc["unix"] = W.chance(0.15)
    if sc["unix"]:
        sc["trusted_prelude"] = False
    return sc


def one(sc, with_headers):
    tapes = Tapes(sc["sub_seed"], "C15sub", 0)
    knobs = dict(threads=1, clear_untrusted_proxy_headers=sc["clear"], url_scheme=sc["url_scheme"],
                 log_untrusted_proxy_headers=sc["log_untrusted"])
    if sc["trusted_proxy"]:
        knobs["trusted_proxy"] = sc["trusted_proxy"]
        knobs["trusted_proxy_count"] = sc["count"]
        if sc["tph"]:
            knobs["trusted_proxy_headers"] = set(sc["tph"])
    unix = bool(sc.get("unix"))
    if unix:
        knobs["unix_socket"] = "/tmp/sim-waitress.sock"
    sim = Simulation(tapes, knobs=knobs, net=NetConfig(), sched={"kind": "rtb"}, unix=unix, horizon=30.0)
    app = ScriptedApp(sim, {}, default={"chunks": [b"ok"], "cl": 2, "keep_environ": True})
    sim.build(app)
    h = [("Host", sc["host"]), ("X-Other", "1")]
    if with_headers:
        for kind, val in sc["headers"].items():
            h.append((proxygen.WIRE_NAME[kind], val.encode("latin-1", "replace")))
    if sc.get("trusted_prelude"):
        hp = [("Host", sc["host"]), ("X-Other", "0")]
        for kind, val in sc["headers"].items():
            hp.append((proxygen.WIRE_NAME[kind], val.encode("latin-1", "replace")))
        sim.add_client([("send", build_request("GET", "/prelude", "1.1", hp))], cid=1, addr=(sc["trusted_proxy"], 40999))
        sim.add_client([("send", build_request("GET", "/p", "1.1", h))], cid=0, addr=(sc["peer"], 40123), start=0.05)
    else:
        sim.add_client([("send", build_request("GET", "/p", "1.1", h))], cid=0, addr="" if unix else (sc["peer"], 40123))
    sim.run()
    s = sim.conns.get(0)
    mine = [c for c in app.calls if c["path"] == "/p"]
    env = dict(mine[0]["environ"]) if mine else None
    status = bytes(s.wire[:12]) if s else b""
    lp = common.log_problems(sim, patterns=("Exception while serving", "uncaptured python exception", "Exception when servicing"))
    return env, status, lp, sim.k.digest(), common.base_stats(sim), sim.k.harness_error


def run_one(tapes, tier, scenario=None):
    sc = scenario if scenario is not None else gen(tapes.W)
    res = RunResult()
    res.scenario = sc
    if sc["trusted_proxy"] == sc["peer"]:
        sc["peer"] = "203.0.113.77"
    env_a, st_a, lp_a, dg_a, stats, he1 = one(sc, True)
    env_b, st_b, lp_b, dg_b, _, he2 = one(sc, False)
    cfg = "tp=%s/clear=%s/%s" % ("set" if sc["trusted_proxy"] else "none", sc["clear"], "+".join(sorted(sc["tph"])) or "-")
    if lp_a:
        res.v("escaped_exception", cfg, "proxy headers from an untrusted peer made the server raise: %s\n%s" % (lp_a[0][1], lp_a[0][2]))
    if env_a is None or env_b is None:
        if (env_a is None) != (env_b is None):
            res.v("influence", "request_outcome:" + cfg, "with proxy headers: %r, without: %r (headers %r)" % (st_a, st_b, sc["headers"]))
    else:
        for kk in KEYS:
            if env_a.get(kk) != env_b.get(kk):
                res.v("influence", kk + ":" + cfg, "an untrusted peer (%s, trusted_proxy=%r) changed %s from %r to %r with headers %r" % (
                    sc["peer"], sc["trusted_proxy"], kk, env_b.get(kk), env_a.get(kk), sc["headers"]))
        if sc["clear"]:
            left = [kk for kk in env_a if kk == "HTTP_FORWARDED" or kk.startswith("HTTP_X_FORWARDED_")]
            if left:
                res.v("not_cleared", cfg, "clear_untrusted_proxy_headers is on but the application saw %r" % ({kk: env_a[kk] for kk in left},))
        else:
            # without clearing the headers are ordinary request fields: they must arrive unmodified
            for kind, val in sc["headers"].items():
                got = env_a.get(proxygen.ENV_KEY[kind])
                if got != val.strip(" \t"):
                    res.v("passthrough", kind, "clear is off: %s should reach the application unchanged (%r), got %r" % (kind, val, got))
        other = {kk: vv for kk, vv in env_a.items() if isinstance(vv, str) and not kk.startswith("HTTP_") and kk not in KEYS}
        other_b = {kk: vv for kk, vv in env_b.items() if isinstance(vv, str) and not kk.startswith("HTTP_") and kk not in KEYS}
        if other != other_b:
            diff = {kk: (other_b.get(kk), other.get(kk)) for kk in set(other) | set(other_b) if other.get(kk) != other_b.get(kk)}
            res.v("influence", "other_keys:" + cfg, "other environ keys differ (without, with): %r" % (diff,))
    if he1 or he2:
        res.harness_error = he1 or he2
    res.digest = hashlib.sha256((repr(sorted(sc.items(), key=str)) + dg_a + dg_b).encode("utf-8", "backslashreplace")).hexdigest()
    res.stats = stats
    res.stats["cells"] = [cfg]
    res.nontrivial = len(sc["headers"]) >= 2
    res.sample = {"config": {kk: sc[kk] for kk in ("trusted_proxy", "peer", "clear", "count", "tph")}, "headers": sc["headers"],
                  "environ_with": {kk: env_a.get(kk) for kk in KEYS} if env_a else None,
                  "environ_without": {kk: env_b.get(kk) for kk in KEYS} if env_b else None}
    return res
