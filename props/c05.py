"""C05 - no lost wake-up: delivery never depends on the poll timeout."""
from sim.runner import RunResult
from models.r2_response import parse_stream
from . import common, pipeline

PROPERTY = "C05"
LEVEL = "exploration"
BUDGET = {"quick": 60, "thorough": 600}
EVIDENCE = {
    "rule": "pipeline family with the poll timeout taken as infinite (select/poll only return on readiness), "
            "response sizes drawn around sendbuf_len, send_bytes and outbuf_high_watermark, 1-3 connections, both "
            "pollers, clients that keep reading (eager or slow; some shut down their sending side) and never disconnect; applications pause before, inside or after their output; oracle evaluated in the "
            "quiescent state (every thread blocked, no event, no timer) and, for lost wake-ups, at every instant where all threads are blocked; distinct = distinct history digest; "
            "non-trivial = the run reached quiescence after >= 1 worker->I/O wake-up through the trigger pipe",
    "real": common.REAL, "stub": common.STUB,
    "assumptions": [
        "quiescence is exact: every blocking primitive of waitress is simulated, so 'all threads blocked and no event pending' is observable",
        "livelock = the I/O thread returns from poll 300 times in a row with the same ready set, no other thread runnable and no progress",
        
    ],
}
OPTS = {
    "max_conns": 3, "max_reqs": 4, "p_expect_run": 0.25,
    "send_bytes": [18000, 1000, 9, 1], "watermark": [16777216, 20000, 1000, 50, 1, 0],
    "extra_sizes": ("send_bytes", "watermark", "sendbuf_len"),
    "p_write": 0.3, "p_halfclose": 0.12, "p_blank": 0.1,
}


def gen(W):
    sc = pipeline.gen_scenario(W, OPTS)
    # fault arm: one connection's socket starts failing at its n-th send (the others keep reading);
    # a worker parked on that connection must be woken by the teardown
    sc["fault"] = None
    if W.chance(0.3):
        sc["fault"] = {"cid": W.draw(len(sc["conns"])), "send": W.draw(12),
                       "errno": W.choice(["ETIMEDOUT", "EHOSTUNREACH", "RST", "EINVAL", "RECV_EAGAIN"])}
    sc["log_socket_errors"] = W.chance(0.6)
    return sc


def run_one(tapes, tier, scenario=None):
    sc = scenario if scenario is not None else gen(tapes.W)
    res = RunResult()
    res.scenario = sc
    ctx = pipeline.build(tapes, sc, infinite_poll=True, horizon=600.0,
                         extra_knobs={"log_socket_errors": sc.get("log_socket_errors", True)})
    sim, k, app = ctx.sim, ctx.k, ctx.app
    snap = {}

    def before_teardown(sim):
        chans = {}
        for cid, ch in sim.chan_by_cid.items():
            chans[cid] = {
                "pending": ch.total_outbufs_len, "requests": len(ch.requests),
                "partial": ch.request is not None, "connected": ch.connected,
                "will_close": ch.will_close, "close_when_flushed": ch.close_when_flushed,
                "waiters": len(ch.outbuf_lock.waiters),
            }
        snap["chans"] = chans
        snap["queue"] = len(sim.dispatcher.queue)

    k.on_finish = lambda k: before_teardown(sim)
    lost = []

    def on_all_blocked(k):
        d = sim.dispatcher
        if lost or d is None or not d.queue or d.stop_count:
            return
        idle = [t.name for t in k.threads if t.alive and t.kind == "worker" and t.blocked is not None
                and str(t.blocked[2]).startswith("cv.wait:task:54")]
        if idle:
            lost.append((len(d.queue), idle, k.seq))

    asleep = []

    def loop_asleep_with_work(k):
        """every thread is blocked.  If the I/O thread sits in its (infinite) poll although a connection has
        output the loop itself would send now - the backlog of a running request has reached send_bytes, or no
        request is running and something is pending or a close is due - then nobody woke it after that output
        was left: delivery waits for whatever happens next (the application's next step, the poll timeout)."""
        if asleep:
            return
        io = sim.io_thread
        if io is None or not io.alive or io.blocked is None or str(io.blocked[2]) not in ("poll", "select"):
            return
        for cid, ch in sim.chan_by_cid.items():
            sk = sim.conns.get(cid)
            if sk is None or sk.closed or not ch.connected or not sk.w_ready() or sk.rst:
                continue
            pend = ch.total_outbufs_len
            if ch.requests:
                due = pend > 0 and pend >= ch.adj.send_bytes
            else:
                due = pend > 0 or ch.will_close or ch.close_when_flushed
            if due:
                asleep.append((cid, pend, len(ch.requests), ch.will_close, ch.close_when_flushed, k.seq,
                               [(t.name, str(t.blocked[2]) if t.blocked else None) for t in k.threads if t.alive]))
                return

    def on_all_blocked_both(k):
        on_all_blocked(k)
        loop_asleep_with_work(k)

    k.on_all_blocked = on_all_blocked_both
    fault = sc.get("fault")
    if fault:
        import errno as _errno
        if fault["errno"] == "RECV_EAGAIN":
            # spurious readiness: one recv raises EAGAIN although the poller reported the socket readable
            sim.add_fault(fault["cid"], "recv", fault["send"] % 4, _errno.EAGAIN)
        else:
            code = -1 if fault["errno"] == "RST" else getattr(_errno, fault["errno"])
            # persistent failure: every send from the n-th on fails
            for i in range(fault["send"], fault["send"] + 400):
                sim.add_fault(fault["cid"], "send", i, code)
    sim.run()

    feat = "+expect" if any(e["expect"] for exp in ctx.expected.values() for e in exp) else ""
    if lost:
        res.v("lost_wakeup", "idle_worker_with_queued_request", "all threads blocked at seq %d with %d task(s) in the dispatcher queue while worker(s) %r sleep on the queue condition" % (
            lost[0][2], lost[0][0], lost[0][1]))
    if asleep:
        a = asleep[0]
        res.v("lost_wakeup", "loop_asleep_with_sendable_output", "all threads blocked at seq %d while conn %d has %d bytes pending (requests queued %d, will_close %s, close_when_flushed %s, send_bytes %d), its socket is writable and the I/O thread sleeps in its poll without having been woken; threads %r" % (
            a[5], a[0], a[1], a[2], a[3], a[4], sc["send_bytes"], a[6]))
    if k.livelock:
        res.v("livelock", "io_spin" + feat, "I/O thread spins without progress: %r; channels %r" % (
            [e for e in k.history[-3:]], snap.get("chans")))
    elif k.end_reason == "quiescent":
        for cid, st in snap["chans"].items():
            if st.get("waiters") and (not st.get("connected") or st.get("pending", 0) <= sc["watermark"]):
                res.v("quiescent", "producer_parked_on_dead_or_drained_channel", "conn %d: a worker is parked on the output buffer although the channel is %s with %d bytes pending (mark %d); threads %r" % (
                    cid, "connected" if st.get("connected") else "closed", st.get("pending", 0), sc["watermark"], sim.final_threads))
        for cid, exp_all in ctx.expected.items():
            exp = pipeline.served_prefix(exp_all)
            s = sim.conns.get(cid)
            if s is None:
                continue
            if s.closed:
                continue
            if fault and fault["cid"] == cid and any(e[2] == "fault" and e[3] == cid for e in k.history):
                if fault["errno"] == "RST" or True:
                    # the faulted connection itself need not be served, but it must not stay open forever
                    rs_, _p = parse_stream(s.wire, [e["method"] for e in exp], s.closed)
                    if len([r for r in rs_ if not r.interim and r.complete]) < len(exp):
                        res.v("quiescent", "faulted_connection_left_open", "conn %d: socket errors since send %d (%s) but the connection is still open and unanswered at quiescence; channel %r" % (
                            cid, fault["send"], fault["errno"], snap["chans"].get(cid)))
                continue
            rs, probs = parse_stream(s.wire, [e["method"] for e in exp], s.closed)
            finals = [r for r in rs if not r.interim and r.complete]
            st = snap["chans"].get(cid, {})
            if len(finals) < len(exp):
                calls = len(common.calls_of(app, cid))
                if st.get("pending"):
                    what = "undelivered_output"
                elif st.get("waiters"):
                    what = "producer_parked"
                elif calls < len(exp):
                    what = "request_unserved"
                else:
                    what = "response_incomplete"
                res.v("quiescent", what + feat, "conn %d quiescent with %d of %d responses delivered, %d app calls; channel %r; threads %r" % (
                    cid, len(finals), len(exp), calls, st, sim.final_threads))
            elif st.get("waiters") and st.get("pending", 0) <= sc["watermark"]:
                res.v("quiescent", "producer_parked_below_mark", "conn %d: producer parked with pending %r <= mark" % (cid, st))
        if snap.get("queue"):
            res.v("quiescent", "task_queued", "dispatcher queue holds %d task(s) at quiescence" % snap["queue"])
    elif k.end_reason not in ("step_cap",):
        res.harness_error = "C05 run ended with %s (expected quiescent)" % k.end_reason
    for t in sim.final_threads:
        if t[3] is not None:
            res.v("thread_died", t[0], "thread %s died with %s" % (t[0], t[3]))
    wake = sum(1 for e in k.history if e[2] == "pipe_write")
    return pipeline.finish(ctx, res, nontrivial=(k.end_reason == "quiescent" and wake >= 1))
