"""C19 - Expect: 100-continue is answered correctly and the request is never lost."""
from sim.harness import Simulation
from sim.shims import NetConfig
from sim.runner import RunResult
from models.r2_response import parse_stream
from . import common
from .common import ScriptedApp, build_request, token_body

PROPERTY = "C19"
LEVEL = "exploration"
BUDGET = {"quick": 60, "thorough": 600}
KINDS = ["plain_get", "plain_post", "expect_body", "expect_nobody", "expect_badcl", "expect_oversize",
         "expect_v10", "expect_chunked", "expect_dup", "expect_case"]
EVIDENCE = {
    "rule": "pipelines of 1-4 requests drawn from " + ", ".join(KINDS) + "; the client either sends everything at once "
            "(seeded cut points) or withholds each expecting request's body until it has seen an interim or final "
            "response (30 simulated seconds patience); 1-2 workers, lookahead 0-2, all scheduler arms, application "
            "sleeps so that the preceding request is still running when the expecting head arrives; distinct = distinct "
            "history digest; non-trivial = at least one interim response was sent",
    "real": common.REAL, "stub": common.STUB,
    "assumptions": [
        "an interim response is attributed to the request whose final response follows it on the wire",
        "'received the head' is measured on the fake socket: the recv call that returned the last head byte precedes the send call that carried the interim's first byte",
        "a refused expecting request may get 0 or 1 interim; a body-less or fully-arrived one 0 or 1; a waiting client exactly 1 (or a final response)",
    ],
}


def gen(W):
    sc = {}
    sc["threads"] = W.choice([1, 2])
    sc["lookahead"] = W.choice([0, 1, 2])
    sc["recv_bytes"] = W.choice([8192, 64, 7, 1], p0=0.5)
    sc["send_bytes"] = W.choice([18000, 1])
    sc["sendbuf_len"] = W.choice([8192, 64, 8])
    sc["sndbuf_cap"] = W.choice([65536, 300, 40])
    sc["use_poll"] = W.chance(0.3)
    sc["p_partial"] = W.choice([0.0, 0.5])
    sc["inbuf_overflow"] = W.choice([524288, 10])
    n = 1 + W.draw(4)
    reqs = []
    for i in range(n):
        q = {"kind": W.choice(KINDS, p0=0.15)}
        if i == 0 and n > 1 and q["kind"].startswith("expect") and W.chance(0.5):
            q["kind"] = "plain_get"
        q["body"] = W.choice([5, 1, 60, 700])
        q["resp"] = W.choice([5, 0, 90, 900])
        q["app_sleep"] = W.choice([0, 0.0005, 0.02], p0=0.4)
        q["wait"] = W.chance(0.6)
        reqs.append(q)
    sc["reqs"] = reqs
    sc["cuts"] = common.cut_points(W, 150 * n, 3)
    sc["seg_delay"] = W.choice([0.0, 0.0004, 0.03])
    sc["sched"], sc["trace"] = common.draw_sched(W, walk_p=0.7)
    return sc


def run_one(tapes, tier, scenario=None):
    sc = scenario if scenario is not None else gen(tapes.W)
    res = RunResult()
    res.scenario = sc
    knobs = dict(threads=sc["threads"], channel_request_lookahead=sc["lookahead"], recv_bytes=sc["recv_bytes"],
                 send_bytes=sc["send_bytes"], asyncore_use_poll=sc["use_poll"], max_request_body_size=5000,
                 inbuf_overflow=sc["inbuf_overflow"])
    net = NetConfig(sendbuf_len=sc["sendbuf_len"], sndbuf_cap=sc["sndbuf_cap"], p_partial_send=sc["p_partial"])
    sim = Simulation(tapes, knobs=knobs, net=net, sched=sc["sched"], trace=sc["trace"], horizon=200.0)
    k = sim.k
    scripts = {}
    items = []  # per request: dict(head, body, kind, expecting, refused, head_end, end, wait)
    off = 0
    dead = False
    for i, q in enumerate(sc["reqs"]):
        kind = q["kind"]
        path = "/r%d" % i
        rbody = token_body(7, i, q["body"])
        resp = token_body(0, i, q["resp"])
        script = {"chunks": [resp], "cl": len(resp), "read_input": True, "keep_environ": True}
        if q["app_sleep"]:
            script["kind"] = "gen"
            script["sleeps"] = {0: q["app_sleep"]}
        scripts[path] = script
        hdrs = [("Host", "s"), ("X-Req", str(i))]
        version = "1.1"
        body = b""
        method = "POST"
        expecting = kind.startswith("expect")
        refused = False
        if expecting:
            hdrs.append(("Expect", "100-continue"))
        if kind == "expect_dup":
            hdrs.append(("Expect", "100-continue"))  # the field sent twice
        if kind == "expect_case":
            hdrs[-1] = ("expect", "100-Continue")
        if kind in ("expect_dup", "expect_case"):
            body = rbody
            head = build_request("POST", path, "1.1", hdrs + [("Content-Length", str(len(body)))])
        elif kind == "plain_get":
            method = "GET"
            head = build_request("GET", path, "1.1", hdrs)
        elif kind in ("plain_post", "expect_body"):
            body = rbody
            head = build_request("POST", path, "1.1", hdrs + [("Content-Length", str(len(body)))])
        elif kind == "expect_nobody":
            method = "GET"
            head = build_request("GET", path, "1.1", hdrs)
        elif kind == "expect_badcl":
            head = build_request("POST", path, "1.1", hdrs + [("Content-Length", "1x")])
            refused = True
        elif kind == "expect_oversize":
            head = build_request("POST", path, "1.1", hdrs + [("Content-Length", "999999")])
            refused = True
        elif kind == "expect_v10":
            body = rbody
            version = "1.0"
            head = build_request("POST", path, "1.0", hdrs + [("Content-Length", str(len(body))), ("Connection", "Keep-Alive")])
        elif kind == "expect_chunked":
            full = build_request("POST", path, "1.1", hdrs, rbody, chunked=True, chunk_sizes=[max(1, len(rbody) // 2)])
            he = full.index(b"\r\n\r\n") + 4
            head, body = full[:he], full[he:]
        it = {"i": i, "kind": kind, "path": path, "method": method, "head": head, "body": body,
              "decoded": rbody if kind in ("plain_post", "expect_body", "expect_v10", "expect_chunked", "expect_dup", "expect_case") else b"",
              "expecting": expecting and version == "1.1", "refused": refused, "version": version,
              "head_end": off + len(head), "end": off + len(head) + len(body),
              "wait": q["wait"] and expecting and version == "1.1" and bool(body), "resp": resp}
        off = it["end"]
        items.append(it)
        if refused:
            break
    app = ScriptedApp(sim, scripts)
    sim.build(app)

    # client script
    steps = []
    waits = []
    pending = b""

    def flush_pending():
        nonlocal pending
        if pending:
            data = pending
            pending = b""
            for j, seg in enumerate(common.split_chunks(data, [x for x in sc["cuts"] if x < len(data)])):
                if j and sc["seg_delay"]:
                    steps.append(("sleep", sc["seg_delay"]))
                steps.append(("send", seg))

    n_interims_needed = 0
    for it in items:
        pending += it["head"]
        if it["wait"]:
            flush_pending()
            n_interims_needed += 1
            need = n_interims_needed
            idx = it["i"]

            def cond(client, need=need, idx=idx):
                w = bytes(client.sock.wire)
                if client.sock.closed:
                    return True
                rs, _ = parse_stream(w, [x["method"] for x in items], False)
                nfin = 0
                for r in rs:
                    if r.interim:
                        if nfin == idx:
                            return True  # an interim after all earlier final responses: it is ours
                    elif r.complete:
                        nfin += 1
                return nfin > idx

            steps.append(("wait", ("fn", cond), 30.0))
            waits.append(idx)
        elif it["expecting"] and it["body"]:
            # a non-waiting client may still have been sent an interim; count it for later waits
            pass
        pending += it["body"]
    flush_pending()
    client = sim.add_client(steps, cid=0)

    # the wait condition above counts interims globally; a non-waiting expecting request may add one
    # more, which only makes a later wait succeed earlier - the oracle below does the exact attribution.

    def all_done():
        s = sim.conns.get(0)
        if s is None:
            return False
        if s.closed:
            return True
        rs, probs = parse_stream(s.wire, [x["method"] for x in items], s.closed)
        fin = [r for r in rs if not r.interim and r.complete]
        return len(fin) >= len(items) and client.done

    k.on_idle = lambda k, q: "stop" if all_done() else "continue"
    sim.run()

    # ---------------------------------------------------------------- oracle
    s = sim.conns.get(0)
    wire = bytes(s.wire) if s else b""
    methods = [x["method"] for x in items]
    rs, probs = parse_stream(wire, methods, s.closed if s else False)
    # attribute interims
    per_req = {}
    cur = []
    fidx = 0
    finals = []
    for r in rs:
        if r.interim:
            cur.append(r)
        else:
            per_req[fidx] = cur
            cur = []
            finals.append(r)
            fidx += 1
    trailing_interims = cur
    served = []
    for it in items:
        served.append(it)
        if it["refused"]:
            break
    if probs:
        res.v("wire", "unparseable:" + probs[0][0], "client-side parser: %r; wire tail %r" % (probs, wire[-100:]))
    # recv / send sequence numbers
    recv_cum = []
    tot = 0
    for e in k.history:
        if e[2] == "recv" and e[3] == 0:
            tot += e[4]
            recv_cum.append((tot, e[0]))

    def recv_seq_of_byte(n):
        for t, seq in recv_cum:
            if t >= n:
                return seq
        return None

    def send_seq_of_offset(o):
        for seq, th, off_, nb in s.send_log:
            if off_ <= o < off_ + nb:
                return seq, th
        return None, None

    n_interims = 0
    for i, it in enumerate(served):
        ints = per_req.get(i, []) if i < len(finals) else (trailing_interims if i == len(finals) else [])
        n_interims += len(ints)
        if len(ints) > 1:
            res.v("interim_count", "more_than_one:" + it["kind"], "request %d (%s) got %d interim responses" % (i, it["kind"], len(ints)))
        if ints and not it["expecting"]:
            res.v("interim_unwanted", it["kind"], "request %d (%s, HTTP/%s) got an interim response it did not ask for" % (i, it["kind"], it["version"]))
        for r in ints:
            if r.status != 100:
                res.v("interim_status", str(r.status), "interim status %d" % r.status)
            sseq, sth = send_seq_of_offset(r.start)
            rseq = recv_seq_of_byte(it["head_end"])
            if rseq is None or sseq is None or sseq < rseq:
                res.v("interim_early", it["kind"], "request %d: interim's first byte sent at seq %r (thread %s) before the server had read the end of its head (seq %r)" % (i, sseq, sth, rseq))
        if it["wait"] and it["i"] in waits:
            got_final = i < len(finals)
            if not ints and not got_final:
                res.v("left_waiting", it["kind"], "client withheld the body of request %d and never got an interim or final response (end=%s, %d client wait timeouts)" % (i, k.end_reason, client.timed_out_waits))
            elif not ints and got_final and finals[i].status == 200:
                res.v("left_waiting", it["kind"] + ":served_without_interim", "request %d was answered 200 although its body was withheld and no interim was sent" % i)
    if client.timed_out_waits and not res.violations:
        res.v("left_waiting", "timeout", "client waited 30 simulated seconds for an interim response (%d timeouts)" % client.timed_out_waits)
    # executed exactly once with own fields
    calls = common.calls_of(app, 0)
    want_calls = [it for it in served if not it["refused"]]
    got_paths = [c["path"] for c in calls]
    if got_paths != [it["path"] for it in want_calls]:
        kinds = ",".join(sorted({it["kind"] for it in served}))
        if len(got_paths) > len(set(got_paths)):
            res.v("exactly_once", "duplicate", "application calls %r, expected %r" % (got_paths, [it["path"] for it in want_calls]))
        else:
            res.v("exactly_once", "missing_or_wrong", "application calls %r, expected %r (kinds %s, end=%s)" % (got_paths, [it["path"] for it in want_calls], kinds, k.end_reason))
    for c, it in zip(calls, want_calls):
        env = c["environ"] or {}
        if env.get("HTTP_X_REQ") != str(it["i"]):
            res.v("own_fields", "x_req", "request %d saw X-Req %r" % (it["i"], env.get("HTTP_X_REQ")))
        if env.get("HTTP_HOST") != "s":
            res.v("own_fields", "host", "request %d saw Host %r" % (it["i"], env.get("HTTP_HOST")))
        if (c["input"] or b"") != it["decoded"]:
            res.v("own_fields", "body", "request %d read body %r..., sent %r..." % (it["i"], (c["input"] or b"")[:30], it["decoded"][:30]))
    for i, (r, it) in enumerate(zip(finals, served)):
        if it["refused"]:
            if r.status not in (400, 413):
                res.v("final", "refused_status", "refused request %d answered %r" % (i, r.status))
        elif r.status != 200 or r.body != it["resp"]:
            res.v("final", "wrong_response", "request %d: status %r body %r..." % (i, r.status, r.body[:40]))
    if not probs and len(finals) != len(served) and not res.violations:
        res.v("final", "response_count", "%d final responses for %d requests (end=%s)" % (len(finals), len(served), k.end_reason))
    lp = common.log_problems(sim)
    if lp:
        from .pipeline import exc_disc
        res.v("escaped_exception", exc_disc(lp[0]), "server logged: %s\n%s" % (lp[0][1], lp[0][2]))
    for t in sim.final_threads:
        if t[3] is not None:
            res.v("thread_died", t[0], "thread %s died with %s" % (t[0], t[3]))
    if k.end_reason == "step_cap":
        res.harness_error = "step cap reached"
    if k.harness_error:
        res.harness_error = k.harness_error
    res.digest = k.digest()
    res.stats = common.base_stats(sim)
    res.stats["cells"] = ["%s/pos%d/%s" % (it["kind"], it["i"], "wait" if it["wait"] else "nowait") for it in items if it["kind"].startswith("expect")]
    by_worker = sum(1 for r in rs if r.interim and send_seq_of_offset(r.start)[1] not in ("io", None))
    res.stats["probes"]["interim_sent_by_worker"] = by_worker
    res.stats["probes"]["interim_sent_by_io"] = sum(1 for r in rs if r.interim) - by_worker
    res.interleaving = k.switch_hash.hexdigest()
    res.nontrivial = n_interims > 0
    res.sample = {"requests": [(it["kind"], "wait" if it["wait"] else "nowait") for it in items],
                  "lookahead": sc["lookahead"], "threads": sc["threads"], "recv_bytes": sc["recv_bytes"],
                  "sched": sc["sched"], "trace": sc["trace"], "interims": n_interims,
                  "statuses": [r.status for r in rs], "end": k.end_reason, "steps": k.steps}
    return res
