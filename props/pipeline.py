"""The pipeline family: 1-3 connections carrying pipelines of valid requests
through the whole simulated server.  Shared by C04, C05, C11, C12(partly), C19."""
from sim.harness import Simulation
from sim.shims import NetConfig
from models.r2_response import parse_stream
from . import common
from .common import ScriptedApp, build_request, token_body


def gen_scenario(W, o):
    """o: options dict restricting the family (see callers)."""
    sc = {}
    sc["threads"] = W.choice(o.get("threads", [1, 2, 3]))
    sc["lookahead"] = W.choice(o.get("lookahead", [0, 1, 2]))
    sc["recv_bytes"] = W.choice(o.get("recv_bytes", [8192, 64, 7, 1]), p0=0.5)
    sc["send_bytes"] = W.choice(o.get("send_bytes", [18000, 1000, 9, 1]))
    sc["sendbuf_len"] = W.choice(o.get("sendbuf_len", [8192, 512, 64, 8]))
    sc["sndbuf_cap"] = W.choice(o.get("sndbuf_cap", [65536, 4096, 300, 40]))
    sc["outbuf_overflow"] = W.choice(o.get("outbuf_overflow", [1048576, 8192, 100, 1]))
    sc["inbuf_overflow"] = W.choice(o.get("inbuf_overflow", [524288, 8192, 10]))
    sc["watermark"] = W.choice(o.get("watermark", [16777216, 20000]))
    sc["p_partial"] = W.choice(o.get("p_partial", [0.0, 0.3, 0.8]))
    sc["p_short"] = W.choice(o.get("p_short", [0.0, 0.3]))
    sc["use_poll"] = W.chance(0.3)
    sc["expect_ok"] = W.chance(o.get("p_expect_run", 0.35))
    nconn = 1 + W.draw(o.get("max_conns", 2), p0=0.7)
    maxreq = o.get("max_reqs", 8)
    conns = []
    for cid in range(nconn):
        nreq = 1 + W.draw(maxreq)
        reqs = []
        for r in range(nreq):
            kind = W.weighted([5, 2, 2])  # GET / POST-CL / POST-chunked
            q = {"kind": kind}
            u = min(sc["sendbuf_len"], sc["sndbuf_cap"])
            sizes = [5, 0, u - 1, u + 3, 3 * u + 1, 12 * u, 40 * u]
            for extra in o.get("extra_sizes", ()):
                v = sc.get(extra)
                if isinstance(v, int) and 0 < v <= 40000:
                    sizes += [v - 1, v, v + 1, 2 * v + 1]
            q["resp_size"] = max(0, W.choice(sizes, p0=0.3))
            q["resp_chunks"] = 1 + W.draw(3)
            q["app_sleep"] = W.choice([0, 0.0001, 0.01], p0=0.6)
            # where the application pauses: before its first chunk, before its last one, or after the last
            # one (output of earlier chunks is then pending while the worker is asleep)
            q["sleep_at"] = W.draw(3)
            q["gen"] = W.chance(0.3)
            q["write"] = W.chance(o.get("p_write", 0.1))
            if kind:
                rb = sc["recv_bytes"]
                q["body_size"] = W.choice([3, 0, 50, rb + 1, 5 * rb + 2, min(9000, 30 * rb)], p0=0.4)
                q["expect"] = sc["expect_ok"] and W.chance(o.get("p_expect", 0.4))
            if o.get("p_blank"):
                # stray empty lines in front of the request line (a client that ends its bodies with an extra
                # CRLF, or keeps a connection warm): they are no request
                q["blank"] = W.choice([0, 1, 2, 3], p0=1.0 - o["p_blank"])
            q["close"] = W.chance(o.get("p_close", 0.06))
            q["v10"] = W.chance(o.get("p_v10", 0.0))
            if q["v10"]:
                q["keepalive"] = W.chance(0.6)
            reqs.append(q)
        cuts = common.cut_points(W, 400 * nreq, 3)
        conns.append({"reqs": reqs, "cuts": cuts, "seg_delay": W.choice([0.0, 0.0005, 0.02]),
                      "reader": W.weighted(o.get("reader_weights", [6, 2])),
                      "start": W.choice([0.0, 0.001])})
        if o.get("p_late_body"):
            # the body of the first expecting request behind another request is held back until bytes of the
            # preceding response show up: it then arrives while the worker is in the epilogue of that request
            conns[-1]["late_body"] = W.chance(o["p_late_body"])
        if o.get("p_halfclose"):
            # the client shuts down its sending side after its last request and keeps reading: with
            # channel_request_lookahead 0 the server meets the EOF only after everything was answered and
            # sent, so nothing may be lost (with a lookahead the EOF legitimately counts as a disconnect)
            conns[-1]["halfclose"] = W.chance(o["p_halfclose"]) and sc["lookahead"] == 0
    sc["conns"] = conns
    sc["sched"], sc["trace"] = common.draw_sched(W, walk_p=o.get("walk_p", 0.6))
    return sc


class Ctx:
    pass


def build(tapes, sc, infinite_poll=False, horizon=60.0, stop_at_idle=True, extra_knobs=None):
    knobs = dict(
        threads=sc["threads"], channel_request_lookahead=sc["lookahead"], recv_bytes=sc["recv_bytes"],
        send_bytes=sc["send_bytes"], outbuf_overflow=sc["outbuf_overflow"],
        inbuf_overflow=sc["inbuf_overflow"], outbuf_high_watermark=sc["watermark"],
        asyncore_use_poll=sc["use_poll"],
    )
    if extra_knobs:
        knobs.update(extra_knobs)
    net = NetConfig(sendbuf_len=sc["sendbuf_len"], sndbuf_cap=sc["sndbuf_cap"],
                    p_partial_send=sc["p_partial"], p_short_read=sc["p_short"])
    sim = Simulation(tapes, knobs=knobs, net=net, sched=sc["sched"], trace=sc["trace"],
                     horizon=horizon, stop_at_idle=stop_at_idle, infinite_poll=infinite_poll)
    scripts = {}
    expected = {}
    streams = {}
    for cid, c in enumerate(sc["conns"]):
        exp = []
        stream = b""
        for r, q in enumerate(c["reqs"]):
            body = token_body(cid, r, q["resp_size"])
            n = q["resp_chunks"]
            step = max(1, len(body) // n)
            chunks = common.split_chunks(body, [step * i for i in range(1, n)])
            kind = "list"
            if q.get("write"):
                kind = "write"
            elif q["gen"] or q["app_sleep"]:
                kind = "gen"
            script = {"chunks": chunks, "cl": len(body), "kind": kind}
            if q["app_sleep"]:
                at = q.get("sleep_at", 0)
                where = 0 if at == 0 else ("end" if (at == 2 or n < 2) else n - 1)
                script["sleeps"] = {where: q["app_sleep"]}
            path = "/c%d/r%d" % (cid, r)
            hdrs = [("Host", "sim")]
            method = "GET"
            rb = None
            version = "1.0" if q.get("v10") else "1.1"
            if q["kind"]:
                method = "POST"
                rb = token_body(cid + 10, r, q["body_size"])
                script["read_input"] = True
                if q.get("expect"):
                    hdrs.append(("Expect", "100-continue"))
            closes = False
            if q["close"]:
                hdrs.append(("Connection", "close"))
                closes = True
            elif q.get("v10"):
                if q.get("keepalive"):
                    hdrs.append(("Connection", "Keep-Alive"))
                else:
                    closes = True
            scripts[path] = script
            chunked = q["kind"] == 2 and version == "1.1"
            raw = build_request(method, path, version, hdrs, rb, chunked=chunked,
                                chunk_sizes=[max(1, len(rb) // 2)] if rb else None)
            stream += b"\r\n" * q.get("blank", 0)
            head_end = len(stream) + raw.index(b"\r\n\r\n") + 4
            stream += raw
            exp.append({"path": path, "method": method, "body": body, "reqbody": rb or b"",
                        "close": closes, "expect": bool(q.get("expect")) and version == "1.1",
                        "version": version, "head_end": head_end, "end": len(stream)})
            if closes and not sc.get("send_after_close"):
                break
        expected[cid] = exp
        streams[cid] = stream
    app = ScriptedApp(sim, scripts)
    sim.build(app)
    for cid, c in enumerate(sc["conns"]):
        stream = streams[cid]
        cuts = [x for x in c["cuts"] if x < len(stream)]
        hold_at = None
        if c.get("late_body"):
            exp = expected[cid]
            for r in range(1, len(exp)):
                if exp[r]["expect"] and exp[r]["reqbody"] and exp[r]["head_end"] < len(stream):
                    hold_at = exp[r]["head_end"]
                    marker = exp[r - 1]["body"][:8]
                    hold_cond = ("contains", marker) if len(marker) == 8 else ("bytes", 1)
                    cuts = sorted(set(cuts + [hold_at]))
                    break
        segs = common.split_chunks(stream, cuts)
        steps = []
        if c["reader"] == 1:
            steps.append(("mode", "slow", max(7, sc["sndbuf_cap"] // 2) + cid, 0.0003))
        pos = 0
        for i, s in enumerate(segs):
            if hold_at is not None and pos == hold_at:
                steps.append(("wait", hold_cond, 0.05))
            elif i and c["seg_delay"]:
                steps.append(("sleep", c["seg_delay"]))
            steps.append(("send", s))
            pos += len(s)
        if c.get("halfclose"):
            steps.append(("fin",))
        sim.add_client(steps, cid=cid, start=c["start"])
    ctx = Ctx()
    ctx.sim, ctx.app, ctx.expected, ctx.streams, ctx.sc, ctx.k = sim, app, expected, streams, sc, sim.k
    return ctx


def served_prefix(exp):
    """requests that must be answered: up to and including the first closing one."""
    out = []
    for e in exp:
        out.append(e)
        if e["close"]:
            break
    return out


def all_done(ctx):
    sim = ctx.sim
    for cid, exp in ctx.expected.items():
        exp = served_prefix(exp)
        s = sim.conns.get(cid)
        if s is None:
            return False
        rs, probs = parse_stream(s.wire, [e["method"] for e in exp], s.closed)
        finals = [r for r in rs if not r.interim]
        if probs or len(finals) < len(exp) or not all(r.complete for r in finals):
            return False
    return True


def install_idle_stop(ctx):
    def on_idle(k, quiescent):
        return "stop" if all_done(ctx) else "continue"
    ctx.k.on_idle = on_idle


def check_pipeline(ctx, res, clauses=("calls", "wire", "logs", "threads")):
    """the C04 oracle; other properties reuse parts of it."""
    sim, app, k = ctx.sim, ctx.app, ctx.k
    feat = "+expect" if any(e["expect"] for exp in ctx.expected.values() for e in exp) else ""
    for cid, exp_all in ctx.expected.items():
        exp = served_prefix(exp_all)
        s = sim.conns.get(cid)
        calls = common.calls_of(app, cid)
        if "calls" in clauses:
            paths = [c["path"] for c in calls]
            want = [e["path"] for e in exp]
            if paths != want:
                if len(paths) > len(set(paths)):
                    res.v("exactly_once", "duplicate_call" + feat, "conn %d: application calls %r, expected %r" % (cid, paths, want))
                elif paths == want[:len(paths)]:
                    res.v("all_served", "missing_call" + feat, "conn %d: application calls %r, expected %r (end=%s)" % (cid, paths, want, k.end_reason))
                else:
                    res.v("order", "wrong_order" + feat, "conn %d: application calls %r, expected %r" % (cid, paths, want))
            for c, e in zip(calls, exp):
                if e["method"] == "POST" and c["input"] != e["reqbody"]:
                    res.v("request_body", "body_mismatch" + feat, "conn %d req %d: wsgi.input %r... != sent %r..." % (
                        cid, c["ridx"], (c["input"] or b"")[:40], e["reqbody"][:40]))
        if s is None or "wire" not in clauses:
            continue
        rs, probs = parse_stream(s.wire, [e["method"] for e in exp], s.closed)
        finals = [r for r in rs if not r.interim]
        if probs:
            res.v("wire", "unparseable:" + probs[0][0] + feat, "conn %d: client-side parser: %r; wire[%d] tail %r" % (
                cid, probs, len(s.wire), bytes(s.wire[-80:])))
        for i, (r, e) in enumerate(zip(finals, exp)):
            if r.status != 200 or r.body != e["body"]:
                res.v("wire", "wrong_body" + feat, "conn %d response %d: status %s body[%d] %r..., expected body[%d] %r..." % (
                    cid, i, r.status, len(r.body), r.body[:50], len(e["body"]), e["body"][:50]))
                break
        # interim responses are bytes of the stream too: at most one in front of the final response of a request
        # that asked for it, none anywhere else ("no byte duplicated")
        idx = 0
        pend = 0
        for r in rs:
            if r.interim:
                pend += 1
                continue
            allowed = 1 if (idx < len(exp) and exp[idx]["expect"]) else 0
            if pend > allowed:
                res.v("wire", "surplus_interim" + feat, "conn %d: %d interim response(s) in front of final response %d (request %s expect)" % (
                    cid, pend, idx, "did" if allowed else "did not"))
                break
            pend = 0
            idx += 1
        else:
            allowed = 1 if (idx < len(exp_all) and exp_all[idx]["expect"]) else 0
            if pend > allowed:
                res.v("wire", "surplus_interim" + feat, "conn %d: %d interim response(s) after the last final response (%d)" % (cid, pend, idx))
        if not probs and len(finals) != len(exp):
            res.v("wire", "response_count" + feat, "conn %d: %d final responses for %d requests (end=%s)" % (
                cid, len(finals), len(exp), k.end_reason))
    if "calls" in clauses and app.overlap:
        res.v("one_at_a_time", "overlap", "two application calls in progress on one connection: %r" % (app.overlap[:3],))
    if "logs" in clauses:
        lp = common.log_problems(sim)
        if lp:
            res.v("escaped_exception", exc_disc(lp[0]) + feat, "server logged: %s\n%s" % (lp[0][1], lp[0][2]))
    if "threads" in clauses:
        for t in sim.final_threads:
            if t[3] is not None:
                res.v("thread_died", t[0], "thread %s died with %s" % (t[0], t[3]))
            elif t[2] and str(t[4] or "").startswith("sock."):
                # the server's sockets are non-blocking: nobody may ever sleep inside send()/recv()
                res.v("thread_stuck", "blocked_in_" + str(t[4]), "thread %s is asleep inside a socket call (%s) at the end of the run" % (t[0], t[4]))


def exc_disc(lp):
    """discriminator for an escaped exception: its type and the innermost waitress frame"""
    exc = lp[2]
    last = ""
    fn = ""
    for line in exc.splitlines():
        line = line.strip()
        if line.startswith('File "') and "/waitress/" in line:
            fn = line.rsplit(" in ", 1)[-1]
        if line and not line.startswith(("File", "Traceback", "^")):
            last = line
    etype = last.split(":")[0] if last else lp[1].split(" ")[0]
    return "%s@%s" % (etype[:30], fn[:30])


def finish(ctx, res, nontrivial=None):
    k, sim = ctx.k, ctx.sim
    if k.end_reason == "step_cap":
        res.harness_error = "step cap reached"
    if k.harness_error:
        res.harness_error = k.harness_error
    res.digest = k.digest()
    res.stats = common.base_stats(sim)
    res.interleaving = k.switch_hash.hexdigest()
    if nontrivial is None:
        nontrivial = any(len(e) >= 2 for e in ctx.expected.values()) and k.switches > 4
    res.nontrivial = nontrivial
    sc = ctx.sc
    res.sample = {
        "knobs": {kk: sc[kk] for kk in ("threads", "lookahead", "recv_bytes", "send_bytes", "sendbuf_len",
                                          "sndbuf_cap", "watermark", "p_partial", "use_poll")},
        "sched": sc["sched"], "trace": sc["trace"],
        "pipelines": [[("%s/%s%s%s%s" % (e["method"], e["version"], " close" if e["close"] else "",
                                          " expect" if e["expect"] else "",
                                          " body=%d" % len(e["reqbody"]) if e["reqbody"] else ""), len(e["body"]))
                       for e in exp] for exp in ctx.expected.values()],
        "switches": k.switches, "steps": k.steps, "end": k.end_reason,
        "sim_seconds": round(k.end_time - k.t0, 6),
    }
    return res
