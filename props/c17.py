"""C17 - buffers are faithful byte queues across all representation changes."""
import gc
import hashlib
import io

from waitress import buffers as wb
from sim.runner import RunResult

PROPERTY = "C17"
LEVEL = "exploration"
BUDGET = {"quick": 20, "thorough": 420}
EVIDENCE = {
    "rule": "operation histories of <= 40 operations (append, peek get(n), consuming get(n, skip=True), skip(n, allow_prune), "
            "len, bool, terminal getfile().read(), close) on OverflowableBuffer(overflow) with payload sizes drawn around the "
            "8 KiB string limit and around the overflow threshold (0, 1, limit-1, limit, limit+1; 6 % of the histories with thresholds around and above the 256 KiB copy block, up to 600000) for overflow in "
            "{0,1,2,100,8191,8192,8193,20000}; and ReadOnlyFileBasedBuffer over seekable/unseekable files with an initial "
            "offset, prepare(size) below/at/above the remaining length, then get/skip/len or iteration; checked operation by "
            "operation against a bytearray; distinct = distinct history (hash of operations and results); non-trivial = at "
            "least one representation migration happened while the read position was non-zero, or (read-only buffer) the "
            "prepared size differed from the file length; the first run indices of every batch are the COMPLETE enumeration of all "
            "histories of length <= 3 (quick) / <= 4 (thorough) over the size-class alphabet for each overflow threshold "
            "(probe enumerated_short_histories counts them), the rest are seeded random histories",
    "real": ["waitress.buffers (unmodified), real BytesIO and temporary files"],
    "stub": ["nothing: the buffer classes are driven directly; there is no scheduler, clock or socket in this property"],
    "assumptions": [
        "only the operations the server itself issues are generated (no prune()); skip(n) is only called with n <= len, as the server does",
        "this property quantifies over histories, not schedules: it is decided by seeded stateful search against a reference model (the family's standard idiom), not by interleaving exploration; the same buffers also run with tiny thresholds inside the C03/C04/C12 simulations",
    ],
}
OVERFLOWS = [20000, 0, 1, 2, 100, 8191, 8192, 8193]


def rep(buf):
    if buf.buf is None:
        return "str"
    return type(buf.buf).__name__


def size_classes(ov):
    L = wb.STRBUF_LIMIT
    s = {0, 1, 2, 7, L - 1, L, L + 1, 3 * L}
    for x in (ov - 1, ov, ov + 1):
        if 0 <= x <= 40000:
            s.add(x)
    return sorted(s)


ENUM_LEN = {"quick": 3, "thorough": 4}
_enum_cache = {}


def enum_alphabet(ov):
    L = wb.STRBUF_LIMIT
    sizes = sorted({0, 1, L - 1, L, L + 1} | {x for x in (ov - 1, ov, ov + 1) if 0 <= x <= 30000})
    ops = [["append", z] for z in sizes]
    ops += [["peek", 1], ["peek", L], ["peek", -1], ["take", 1], ["take", L + 1], ["skip", 0, 1], ["skip", 1, 1]]
    return ops


def enum_total(tier):
    n = ENUM_LEN.get(tier, 3)
    tot = 0
    for ov in OVERFLOWS:
        a = len(enum_alphabet(ov))
        tot += sum(a ** k for k in range(1, n + 1))
    return tot


def enum_scenario(tier, index):
    """the index-th history of the complete enumeration (all histories of length <= ENUM_LEN over the
    size-class alphabet, for every overflow threshold); None when index is past the end"""
    n = ENUM_LEN.get(tier, 3)
    for ov in OVERFLOWS:
        alpha = enum_alphabet(ov)
        a = len(alpha)
        for k in range(1, n + 1):
            cnt = a ** k
            if index < cnt:
                ops = []
                x = index
                for _ in range(k):
                    ops.append(list(alpha[x % a]))
                    x //= a
                # 'skip' arguments: [skip, selector, allow_prune]; selector 0 -> 1 byte, 1 -> everything
                ops = [["skip", 0 if o[1] == 0 else 3, o[2]] if o[0] == "skip" else o for o in ops]
                return {"kind": "overflowable", "overflow": ov, "ops": ops + [["len"], ["close"]], "enumerated": True}
            index -= cnt
    return None


def gen(W):
    sc = {"kind": W.choice(["overflowable", "overflowable", "readonly"])}
    if sc["kind"] == "overflowable":
        ov = W.choice(OVERFLOWS)
        sizes = size_classes(ov)
        nmax = 39
        if W.chance(0.06):
            # thresholds of the order of the defaults (inbuf_overflow 512 KiB, outbuf_overflow 1 MiB): a migration
            # then carries more than one COPY_BYTES block
            C = wb.COPY_BYTES
            ov = W.choice([C + 1, C - 1, C, 2 * C, 2 * C + 17, 600000])
            sizes = sorted({0, 1, 5000, wb.STRBUF_LIMIT, 65536, 100000, C - 1, C, C + 1, ov - 1, ov, ov + 1})
            nmax = 9
        sc["overflow"] = ov
        ops = []
        for _ in range(2 + W.draw(nmax)):
            o = W.weighted([6, 4, 2, 4, 1, 1])
            if o == 0:
                ops.append(["append", W.choice(sizes)])
            elif o == 1:
                ops.append(["peek", W.choice(sizes + [-1])])
            elif o == 2:
                ops.append(["take", W.choice(sizes)])
            elif o == 3:
                ops.append(["skip", W.draw(1000), W.draw(2)])
            elif o == 4:
                ops.append(["len"])
            else:
                ops.append(["bool"])
        if W.chance(0.3):
            ops.append(["getfile_read"])
        ops.append(["close"])
        sc["ops"] = ops
    else:
        sc["seekable"] = W.chance(0.6)
        sc["flen"] = W.choice([0, 1, 10, 1000, 40000])
        sc["offset"] = W.choice([0, 0, 1, 5])
        sc["prepare"] = W.choice(["none", "below", "at", "above", "zero"])
        sc["block"] = W.choice([32768, 7, 100])
        ops = []
        for _ in range(1 + W.draw(12)):
            o = W.weighted([4, 3, 3, 1])
            if o == 0:
                ops.append(["peek", W.choice([1, 5, 100, 8192, 50000, -1])])
            elif o == 1:
                ops.append(["take", W.choice([1, 5, 100, 8192, 50000])])
            elif o == 2:
                ops.append(["skip", W.draw(1000), 0])
            else:
                ops.append(["len"])
        sc["ops"] = ops
        sc["iterate"] = W.chance(0.3)
    return sc


class Unseekable:
    def __init__(self, data):
        self._f = io.BytesIO(data)

    def read(self, n=-1):
        return self._f.read(n)

    def close(self):
        self._f.close()


def payload(counter, n):
    out = bytearray()
    while len(out) < n:
        out += b"[%d]" % counter[0]
        counter[0] += 1
    return bytes(out[:n])


def run_one(tapes, tier, scenario=None):
    sc = scenario
    if sc is None and tapes.W.replay is None:
        # the first enum_total(tier) run indices are the complete enumeration of short histories
        sc = enum_scenario(tier, tapes.run_index)
    if sc is None:
        sc = gen(tapes.W)
    res = RunResult()
    res.scenario = sc
    h = hashlib.sha256()
    probes = {}

    def note(*a):
        h.update(repr(a).encode())

    def bad(clause, disc, msg):
        res.v(clause, disc, msg + " | history so far: %r" % (trace[-8:],))

    trace = []
    nontrivial = False
    if sc["kind"] == "overflowable":
        ov = sc["overflow"]
        buf = wb.OverflowableBuffer(ov)
        model = bytearray()
        counter = [0]
        consumed = 0
        for op in sc["ops"]:
            before = rep(buf)
            name = op[0]
            try:
                if name == "append":
                    data = payload(counter, op[1])
                    buf.append(data)
                    model += data
                    trace.append(("append", op[1]))
                elif name == "peek":
                    n = op[1]
                    got = buf.get(n)
                    trace.append(("peek", n, len(got)))
                    want_min = len(model) if n < 0 else min(n, len(model))
                    if bytes(model[:len(got)]) != got:
                        bad("peek", "not_a_prefix:" + before, "peek(%d) returned %d bytes that are not a prefix of the %d queued bytes (overflow %d, representation %s)" % (n, len(got), len(model), ov, before))
                        break
                    if len(got) < want_min:
                        bad("peek", "too_short:" + before, "peek(%d) returned %d bytes, %d are queued (overflow %d, representation %s)" % (n, len(got), len(model), ov, before))
                        break
                elif name == "take":
                    n = op[1]
                    got = buf.get(n, True)
                    trace.append(("take", n, len(got)))
                    want = bytes(model[:n])
                    if got != want:
                        bad("take", "wrong_bytes:" + before, "get(%d, skip=True) returned %d bytes, expected the first %d queued bytes (overflow %d, representation %s)" % (n, len(got), len(want), ov, before))
                        break
                    del model[:len(got)]
                    consumed += len(got)
                elif name == "skip":
                    if not model:
                        continue
                    n = 1 + op[1] % len(model)
                    if op[1] % 3 == 0 and op[1] > 0:
                        n = len(model)
                    buf.skip(n, bool(op[2]))
                    trace.append(("skip", n, op[2]))
                    del model[:n]
                    consumed += n
                elif name == "len":
                    trace.append(("len",))
                elif name == "bool":
                    if bool(buf) != (len(model) > 0):
                        bad("bool", before, "bool(buffer) is %s with %d bytes queued" % (bool(buf), len(model)))
                        break
                    trace.append(("bool",))
                elif name == "getfile_read":
                    f = buf.getfile()
                    got = f.read()
                    trace.append(("getfile_read", len(got)))
                    if got != bytes(model):
                        bad("getfile", "wrong_bytes:" + before, "getfile().read() returned %d bytes, %d are queued (overflow %d, representation %s)" % (len(got), len(model), ov, before))
                    break
                elif name == "close":
                    buf.close()
                    trace.append(("close",))
                    break
            except Exception as e:  # noqa
                bad("raised", type(e).__name__ + ":" + name, "%s(%r) raised %r with %d bytes queued (overflow %d, representation %s)" % (name, op[1:], e, len(model), ov, before))
                break
            after = rep(buf)
            try:
                blen = len(buf)
            except Exception as e:  # noqa
                bad("len", "raises:" + type(e).__name__, "len(buffer) raised %r after %s with %d bytes queued (overflow %d)" % (e, name, len(model), ov))
                break
            if name != "close" and blen != len(model):
                bad("len", "%s->%s:%s" % (before, after, name), "len(buffer) is %d after %s, appended minus consumed is %d (overflow %d)" % (blen, name, len(model), ov))
                break
            if after != before:
                probes["migrate:%s->%s" % (before, after)] = probes.get("migrate:%s->%s" % (before, after), 0) + 1
                if consumed > 0 and len(model) > 0:
                    nontrivial = True
            note(name, len(model), after)
        try:
            buf.close()
        except Exception:
            pass
        res.sample = {"kind": "OverflowableBuffer", "overflow": ov, "ops": trace[:40], "migrations": sorted(probes),
                      "enumerated": bool(sc.get("enumerated"))}
        cell = "ov=%d" % ov
        if sc.get("enumerated"):
            probes["enumerated_short_histories"] = 1
    else:
        data = payload([0], sc["flen"])
        off = min(sc["offset"], len(data))
        f = io.BytesIO(data) if sc["seekable"] else Unseekable(data)
        if off:
            f.read(off)
        avail = data[off:]
        size = {"none": None, "below": max(0, len(avail) - 3), "at": len(avail), "above": len(avail) + 9, "zero": 0}[sc["prepare"]]
        rb = wb.ReadOnlyFileBasedBuffer(f, sc["block"])
        try:
            prepared = rb.prepare(size)
        except Exception as e:  # noqa
            prepared = None
            bad("raised", "prepare", "prepare(%r) raised %r" % (size, e))
        trace.append(("prepare", size, prepared))
        if prepared is not None:
            if sc["seekable"]:
                want_prep = len(avail) if size is None else min(len(avail), size)
                if prepared != want_prep:
                    bad("prepare", "wrong_size", "prepare(%r) returned %r for %d available bytes" % (size, prepared, len(avail)))
                if size is not None and size != len(avail):
                    nontrivial = True
            elif prepared != 0:
                bad("prepare", "unseekable_nonzero", "prepare on an unseekable file returned %r" % (prepared,))
            model = bytearray(avail[:prepared]) if sc["seekable"] else bytearray()
            consumed = 0
            if sc["seekable"] and prepared and not sc["iterate"]:
                for op in sc["ops"]:
                    name = op[0]
                    try:
                        if name == "peek":
                            got = rb.get(op[1])
                            trace.append(("peek", op[1], len(got)))
                            if bytes(model[:len(got)]) != got or len(got) > len(model):
                                bad("readonly_peek", "beyond_prepared" if len(got) > len(model) else "wrong_bytes", "peek(%d) returned %d bytes, prepared remainder is %d" % (op[1], len(got), len(model)))
                                break
                            wmin = len(model) if op[1] < 0 else min(op[1], len(model))
                            if len(got) < wmin:
                                bad("readonly_peek", "too_short", "peek(%d) returned %d of %d" % (op[1], len(got), len(model)))
                                break
                        elif name == "take":
                            got = rb.get(op[1], True)
                            trace.append(("take", op[1], len(got)))
                            if got != bytes(model[:op[1]]):
                                bad("readonly_take", "beyond_prepared" if len(got) > len(model) else "wrong_bytes", "get(%d, skip=True) returned %d bytes, prepared remainder %d" % (op[1], len(got), len(model)))
                                break
                            del model[:len(got)]
                            consumed += len(got)
                        elif name == "skip":
                            if not model:
                                continue
                            n = 1 + op[1] % len(model)
                            rb.skip(n, True)
                            trace.append(("skip", n))
                            del model[:n]
                            consumed += n
                        else:
                            trace.append(("len",))
                    except Exception as e:  # noqa
                        bad("raised", type(e).__name__ + ":" + name, "%s%r raised %r" % (name, tuple(op[1:]), e))
                        break
                    if len(rb) != len(model):
                        bad("readonly_len", name, "len is %d after %s, model %d" % (len(rb), name, len(model)))
                        break
                    if f.tell() != off + consumed:
                        bad("file_position", name, "wrapped file is at %d after %s, bytes handed out end at %d" % (f.tell(), name, off + consumed))
                        break
                    note(name, len(model))
            else:
                # iteration path (what the task does for unseekable files or an empty prepared size)
                out = bytearray()
                try:
                    for chunk in rb:
                        out += chunk
                        if len(chunk) > sc["block"]:
                            bad("iterate", "block_too_big", "iteration yielded %d bytes with block_size %d" % (len(chunk), sc["block"]))
                        if len(out) > len(avail) + 1:
                            break
                except Exception as e:  # noqa
                    bad("raised", type(e).__name__ + ":iterate", "iteration raised %r" % (e,))
                trace.append(("iterate", len(out)))
                # iterating hands out the rest of the file block by block (the task clamps to the declared length);
                # stopping at the prepared size would satisfy the property just as well
                if bytes(out) != avail and not (sc["seekable"] and bytes(out) == avail[:prepared or 0]):
                    bad("iterate", "wrong_bytes", "iteration yielded %d bytes, the file holds %d from its position (prepared %r)" % (len(out), len(avail), prepared))
                note("iterate", len(out))
        try:
            rb.close()
        except Exception:
            pass
        res.sample = {"kind": "ReadOnlyFileBasedBuffer", "seekable": sc["seekable"], "file_len": sc["flen"], "offset": off,
                      "prepare": size, "ops": trace[:20]}
        cell = "ro/%s/%s" % ("seek" if sc["seekable"] else "noseek", sc["prepare"])
    note(tuple(map(tuple, trace)))
    res.digest = h.hexdigest()
    res.nontrivial = nontrivial
    res.stats = {"steps": len(trace), "switches": 0, "sim_seconds": 0.0, "probes": probes, "faults": {}, "end": "done", "cells": [cell]}
    res.interleaving = ""
    return res
