"""C06 - oversize and malformed input is refused totally: error response, close, no crash."""
from sim.harness import Simulation
from sim.shims import NetConfig
from sim.runner import RunResult
from models.r2_response import parse_stream
from . import common, reqgen, c01
from .common import ScriptedApp

PROPERTY = "C06"
LEVEL = "exploration"
BUDGET = {"quick": 30, "thorough": 600}
SHAPES = ["head_at_limit", "head_unterminated", "cl_at_limit", "chunked_at_limit", "cl_huge_digits", "csize_huge_digits",
          "unterminated_chunk_line", "unterminated_trailer", "mutated_message", "garbage", "long_reqline",
          "many_small_headers", "head_at_limit_leading_crlf", "long_value_bad_tail", "long_trailer_bad_tail",
          "leading_ws_flood", "ows_flood_bad_tail", "reqline_digits_bad_tail"]
EVIDENCE = {
    "rule": "one connection; input shape drawn from " + ", ".join(SHAPES) + "; max_request_header_size in {16..262144}, "
            "max_request_body_size in {8..1 GiB}, sizes placed at limit-2..limit+2, recv_bytes in {1,7,64,8192}, with and "
            "without a pipelined follower in the same read, lookahead 0, send_bytes 1 or 18000, refused requests with and without Expect: 100-continue, further bytes keep arriving after the offending "
            "message so that continued consumption would be seen; distinct = distinct history digest; non-trivial = the "
            "server refused the input (error response) or the limit boundary was within 2 bytes",
    "real": common.REAL, "stub": common.STUB,
    "assumptions": [
        "head length = bytes up to and including the terminating CRLFCRLF of a canonical head without leading blank lines",
        "for chunked bodies 413 is required when the decoded size reaches the limit and allowed (EITHER) when only the raw chunked encoding does",
        "'stops consuming within one read' is measured on the fake socket: at most one data-bearing recv after the read in which the limit was crossed or the malformation completed",
    ],
}


def pad_head(path, total, follower_sep=b""):
    """canonical head of exactly `total` bytes (if possible)"""
    base = b"GET " + path + b" HTTP/1.1\r\nHost: h\r\nX-Pad: "
    tail = b"\r\n\r\n"
    n = total - len(base) - len(tail)
    if n < 0:
        return None
    return base + b"p" * n + tail


def gen(W):
    sc = {}
    sc["shape"] = W.choice(SHAPES)
    sc["max_header"] = W.choice([262144, 16, 64, 100, 500, 4096])
    sc["max_body"] = W.choice([1073741824, 8, 100, 1000, 70000])
    sc["recv_bytes"] = W.choice([8192, 64, 7, 1])
    sc["d"] = W.choice([0, -2, -1, 1, 2])
    sc["follower"] = W.chance(0.5)
    sc["inbuf_overflow"] = W.choice([524288, 50])
    sc["cut"] = W.draw(400)
    sc["extra_after"] = W.choice([0, 300, 5000])
    sc["seed"] = W.draw(1 << 20)
    sc["send_bytes"] = W.choice([1, 18000])   # with 18000 the error response is left for the I/O thread to send
    sc["expect"] = W.chance(0.3)              # refused-at-the-head requests that asked for 100-continue
    # a quarter of the runs are scheduled adversarially (2 workers, random walk / PCT over source lines):
    # 'zero application calls' must not depend on the worker being slower than the reader
    sc["threads"] = 1
    sc["sched"], sc["trace"] = {"kind": "rtb"}, "none"
    if W.chance(0.25):
        sc["threads"] = 2
        sc["sched"], sc["trace"] = common.draw_sched(W, walk_p=0.6, pct_p=0.3)
    if sc["shape"] == "mutated_message":
        m = reqgen.gen_message(W, 0)
        reqgen.apply_mutation(m, reqgen.pick_mutation(W, m), W)
        sc["msg"] = m
    return sc


FOLLOW = b"GET /follower HTTP/1.1\r\nHost: h\r\n\r\n"


def build(sc):
    """returns (stream, expectation) ; expectation: dict(kind=..., statuses=set or None, app_calls=list of allowed paths)"""
    shape = sc["shape"]
    H, B, d = sc["max_header"], sc["max_body"], sc["d"]
    exp = {"statuses": None, "must_refuse": False, "may_refuse": False, "may_wait": False, "cross_pos": None,
           "no_follower": False}
    head_shapes = ("head_at_limit", "head_at_limit_leading_crlf", "head_unterminated", "long_reqline", "many_small_headers",
                   "leading_ws_flood")
    if shape not in head_shapes:
        H = sc["max_header"] = 262144
    if shape not in ("cl_at_limit", "chunked_at_limit", "unterminated_chunk_line", "unterminated_trailer"):
        B = sc["max_body"] = 1073741824
    elif sc["recv_bytes"] <= 7 and B > 1000:
        B = sc["max_body"] = 1000
    elif B > 100000:
        B = sc["max_body"] = 1000
    if shape in ("head_at_limit", "head_at_limit_leading_crlf"):
        if H > 5000:
            H = sc["max_header"] = 500
        total = H + d
        head = pad_head(b"/h", total)
        if head is None:
            head = b"GET /h HTTP/1.1\r\nHost: h\r\n\r\n"
            total = len(head)
        if shape == "head_at_limit_leading_crlf":
            head = b"\r\n" + head
            exp["may_refuse"] = True
            exp["must_refuse"] = total >= H
        else:
            exp["must_refuse"] = total >= H
            if total >= H:
                exp["cross_pos"] = H
        exp["statuses"] = {431}
        stream = head
        exp["accept_path"] = "/h"
    elif shape == "head_unterminated":
        if H > 3000:
            sc["max_header"] = H = 800
        n = H + 5 + d
        stream = b"GET /u HTTP/1.1\r\nHost: h\r\nX-Long: " + b"q" * n
        exp["must_refuse"] = True
        exp["statuses"] = {431}
        exp["cross_pos"] = H
        exp["no_follower"] = True
    elif shape == "leading_ws_flood":
        # nothing but bytes a lenient parser might skip in front of a request line (no CRLF CRLF among them), more
        # of them than a header block may have, then a well-formed request: the block that ends at the request's
        # blank line is over the limit long before the request line arrives
        if H > 3000:
            sc["max_header"] = H = 800
        wsb = [b"\n", b" ", b"\x0b", b"\t", b"\r", b"\x0c", b" \n", b"\n\n "][sc["seed"] % 8]
        n = H + 5 + d
        stream = (wsb * n)[:n] + b"GET /w HTTP/1.1\r\nHost: h\r\n\r\n"
        exp["must_refuse"] = True
        exp["statuses"] = {431}
        exp["cross_pos"] = H
    elif shape == "long_reqline":
        if H > 5000:
            sc["max_header"] = H = 300
        stream = b"GET /" + b"a" * (H + d) + b" HTTP/1.1\r\nHost: h\r\n\r\n"
        exp["must_refuse"] = True
        exp["statuses"] = {431}
        exp["cross_pos"] = H
    elif shape == "many_small_headers":
        if H > 5000:
            sc["max_header"] = H = 600
        stream = b"GET /m HTTP/1.1\r\nHost: h\r\n" + b"".join(b"X-%d: v\r\n" % i for i in range(H // 8 + 3)) + b"\r\n"
        exp["must_refuse"] = True
        exp["statuses"] = {431}
        exp["cross_pos"] = H
    elif shape == "cl_at_limit":
        if B > 100000:
            B = sc["max_body"] = 1000
        n = max(0, B + d)
        ex = b"Expect: 100-continue\r\n" if (sc.get("expect") and n >= B and n > 0) else b""
        stream = b"POST /b HTTP/1.1\r\nHost: h\r\n" + ex + b"Content-Length: %d\r\n\r\n" % n + b"z" * n
        exp["no_interim"] = bool(ex)  # refused on its header block: nothing but the error response may be sent
        exp["must_refuse"] = n >= B and n > 0
        exp["statuses"] = {413}
        exp["accept_path"] = "/b"
        exp["body_len"] = n
        if exp["must_refuse"]:
            exp["cross_pos"] = len(stream) - n
    elif shape == "chunked_at_limit":
        if B > 100000:
            B = sc["max_body"] = 1000
        n = max(1, B + d)
        half = max(1, n // 2)
        parts = [b"z" * half, b"z" * (n - half)]
        enc = b"".join(b"%X\r\n" % len(p) + p + b"\r\n" for p in parts if p) + b"0\r\n\r\n"
        stream = b"POST /c HTTP/1.1\r\nHost: h\r\nTransfer-Encoding: chunked\r\n\r\n" + enc
        exp["must_refuse"] = n >= B
        exp["may_refuse"] = len(enc) >= B  # raw size reaches the limit although the decoded size may not
        exp["statuses"] = {413}
        exp["accept_path"] = "/c"
        exp["body_len"] = n
        if len(enc) >= B:
            exp["cross_pos"] = len(stream) - len(enc) + B
    elif shape == "cl_huge_digits":
        digits = [b"9" * 5000, b"1" + b"0" * 4400, b"9" * 25, b"18446744073709551616"][sc["seed"] % 4]
        ex = b"Expect: 100-continue\r\n" if sc.get("expect") else b""
        stream = b"POST /x HTTP/1.1\r\nHost: h\r\n" + ex + b"Content-Length: " + digits + b"\r\n\r\n" + b"z" * 50
        exp["no_interim"] = bool(ex)
        exp["must_refuse"] = True
        exp["statuses"] = {400, 413}
    elif shape == "csize_huge_digits":
        digits = [b"F" * 5000, b"1" + b"0" * 40, b"FFFFFFFFFFFFFFFF"][sc["seed"] % 3]
        stream = b"POST /x HTTP/1.1\r\nHost: h\r\nTransfer-Encoding: chunked\r\n\r\n" + digits + b"\r\n" + b"z" * 50
        exp["may_refuse"] = True
        exp["may_wait"] = True
        exp["no_follower"] = True
        exp["statuses"] = {400, 413}
    elif shape == "unterminated_chunk_line":
        if B > 100000:
            B = sc["max_body"] = 500
        stream = b"POST /x HTTP/1.1\r\nHost: h\r\nTransfer-Encoding: chunked\r\n\r\n" + b"1" * (B + 50 + d)
        exp["must_refuse"] = True
        exp["statuses"] = {400, 413}
        exp["no_follower"] = True
        exp["cross_pos"] = len(stream) - (B + 50 + d) + B
    elif shape == "unterminated_trailer":
        if B > 100000:
            B = sc["max_body"] = 500
        head = b"POST /x HTTP/1.1\r\nHost: h\r\nTransfer-Encoding: chunked\r\n\r\n"
        stream = head + b"3\r\nabc\r\n0\r\nX-T: " + b"t" * (B + 50 + d)
        exp["must_refuse"] = True
        exp["statuses"] = {400, 413}
        exp["no_follower"] = True
        exp["cross_pos"] = len(head) + B  # the raw body bytes reach the limit here
    elif shape in ("long_value_bad_tail", "long_trailer_bad_tail"):
        # a field value of a few dozen visible characters followed by one octet that is not allowed: must be
        # refused quickly (a backtracking pattern needs time exponential in the length)
        n = [22, 25, 28, 33][sc["seed"] % 4]  # 33: seconds of CPU for an exponential matcher, microseconds for a linear one
        bad = [b"\x7f", b"\x01", b"\x00", b"\x0b"][sc["seed"] % 4]
        line = b"X-Trace: " + b"a" * n + bad
        if shape == "long_value_bad_tail":
            stream = b"GET /x HTTP/1.1\r\nHost: h\r\n" + line + b"\r\n\r\n"
        else:
            stream = b"POST /x HTTP/1.1\r\nHost: h\r\nTransfer-Encoding: chunked\r\n\r\n3\r\nabc\r\n0\r\n" + line + b"\r\n\r\n"
        exp["may_refuse"] = True
        exp["statuses"] = {400}
        exp["anything"] = True
        exp["timed"] = True
        sc["recv_bytes"] = 8192
    elif shape == "reqline_digits_bad_tail":
        # a request line whose target is "scheme://" plus thousands of digits, followed by one word too many:
        # sub-patterns that can all match the digits make a backtracking matcher quadratic
        n = [8000, 10000][sc["seed"] % 2]
        fill = [b"1", b"7", b"a1"][(sc["seed"] >> 1) % 3]
        stream = b"GET x://" + (fill * n)[:n] + b" x x\r\nHost: h\r\n\r\n"
        sc["recv_bytes"] = 8192
        exp["may_refuse"] = True
        exp["statuses"] = {400}
        exp["anything"] = True
        exp["timed"] = True
    elif shape == "ows_flood_bad_tail":
        # a field line made of the name, tens of thousands of blanks and one octet that is not allowed (in the head
        # or in a trailer): optional-whitespace matched twice around an empty value makes a backtracking pattern
        # quadratic - seconds of CPU on the I/O thread for 40 kB, minutes for a head at the default limit
        n = [40000, 30000][sc["seed"] % 2]
        ws = [b" ", b"\t"][(sc["seed"] >> 1) % 2]
        bad = [b"\x7f", b"\x01", b"\x00", b"\x0b"][(sc["seed"] >> 2) % 4]
        line = b"X-Pad:" + ws * n + bad
        if (sc["seed"] >> 4) % 2:
            stream = b"GET /x HTTP/1.1\r\nHost: h\r\n" + line + b"\r\n\r\n"
        else:
            stream = b"POST /x HTTP/1.1\r\nHost: h\r\nTransfer-Encoding: chunked\r\n\r\n3\r\nabc\r\n0\r\n" + line + b"\r\n\r\n"
        sc["recv_bytes"] = 8192
        exp["may_refuse"] = True
        exp["statuses"] = {400}
        exp["anything"] = True
        exp["timed"] = True
    elif shape == "garbage":
        import random
        rr = random.Random(sc["seed"])
        n = rr.choice([5, 40, 300, 3000])
        stream = bytes(rr.randrange(256) for _ in range(n)) + b"\r\n\r\n"
        exp["may_refuse"] = True
        exp["statuses"] = {400, 413, 431, 501}
        exp["anything"] = True
    else:  # mutated_message
        m = reqgen.finalize(sc["msg"])
        stream = m["raw"]
        V = m["verdict"]
        exp["must_refuse"] = V[0] == "REJECT"
        exp["may_refuse"] = V[0] == "EITHER"
        exp["may_wait"] = V[0] == "EITHER" and "may_wait" in V[1]["dontcare"]
        exp["statuses"] = {400, 413, 431, 501}
        exp["anything"] = True
        exp["label"] = m["mutation"]
        # a near-miss can leave the message unterminated from the server's point of view (e.g. a bare CR as the
        # last line terminator, an empty chunk-size line that shifts the framing): waiting for more input is then
        # correct and bounded by the size limits; that such messages are refused once complete is C01's claim
        exp["may_wait"] = True
    return stream, exp


def run_one(tapes, tier, scenario=None):
    if scenario is not None:
        sc = dict(scenario)
        if "msg" in sc:
            sc["msg"] = c01.fix_types(c01.deser(scenario["msg"]))
    else:
        sc = gen(tapes.W)
    res = RunResult()
    try:
        stream, exp = build(sc)
    except AssertionError as e:
        res.harness_error = str(e)
        res.digest = "selfcheck"
        res.stats = {"end": "selfcheck"}
        return res
    res.scenario = dict(sc)
    if "msg" in sc:
        res.scenario["msg"] = c01.ser(sc["msg"])
    offending_len = len(stream)
    tail = b""
    if sc["follower"] and not exp["no_follower"]:
        tail += FOLLOW
    tail += b"Z" * sc["extra_after"]
    if exp.get("label") in ("head_end_lflf", "head_end_crlflf", "trailer_end_lf") and b"\r\n\r\n" not in tail:
        # without a later CRLFCRLF the message simply never ends: waiting is correct
        exp["must_refuse"] = False
        exp["may_refuse"] = True
        exp["may_wait"] = True
    knobs = dict(threads=sc.get("threads", 1), channel_request_lookahead=0, recv_bytes=sc["recv_bytes"],
                 max_request_header_size=sc["max_header"], max_request_body_size=sc["max_body"],
                 inbuf_overflow=sc["inbuf_overflow"], clear_untrusted_proxy_headers=False, send_bytes=sc.get("send_bytes", 1))
    sim = Simulation(tapes, knobs=knobs, net=NetConfig(), sched=sc.get("sched", {"kind": "rtb"}), trace=sc.get("trace", "none"),
                     horizon=60.0, step_cap=400000)
    k = sim.k
    app = ScriptedApp(sim, {}, default={"chunks": [b"ok"], "cl": 2, "read_input": True, "keep_environ": True})
    sim.build(app)
    full = stream + tail
    cut = sc["cut"] % max(1, len(full))
    steps = [("send", full[:cut]), ("sleep", 0.0003), ("send", full[cut:])] if cut else [("send", full)]
    sim.add_client(steps, cid=0)
    import time as _rt
    t_wall = _rt.process_time()  # CPU seconds of this process: independent of how busy the machine is
    sim.run()
    t_wall = _rt.process_time() - t_wall

    # ---------------------------------------------------------------- oracle
    s = sim.conns.get(0)
    wire = bytes(s.wire)
    if t_wall > 3.0 and exp.get("timed"):
        # (only for the shapes built to expose super-linear matching, which arrive in at most a handful of reads:
        # such a run normally costs a few milliseconds of CPU, so the threshold is generous even on a loaded machine)
        # (measured CPU time, hence the generous threshold: such a run normally takes a few milliseconds)
        res.v("hang", "slow_parse:" + sc["shape"], "handling %d bytes of input took %.1f s of CPU time: %r" % (len(stream), t_wall, stream[-80:]))
    rs, probs = parse_stream(wire, ["GET"] * 6, s.closed)
    finals = [r for r in rs if not r.interim]
    shape = sc["shape"] + (":" + exp["label"] if exp.get("label") else "")
    calls = [c["environ"].get("REQUEST_URI") if c["environ"] else None for c in app.calls]
    lp = common.log_problems(sim, patterns=("uncaptured python exception", "Unexpected exception", "Exception when servicing", "Exception while serving"))
    if lp:
        from .pipeline import exc_disc
        res.v("raised", exc_disc(lp[0]) + ":" + shape, "the input made the server raise: %s\n%s; input %r" % (lp[0][1], lp[0][2], stream[:120]))
    refused = bool(finals) and finals[0].status in (400, 413, 431, 501) and b"generated by" in finals[0].body
    served = bool(finals) and finals[0].status == 200
    if k.end_reason in ("step_cap", "livelock"):
        res.v("hang", shape, "the run did not settle: %s" % k.end_reason)
    elif not finals:
        if exp["must_refuse"] and not (exp["may_wait"] and not s.closed):
            res.v("no_error_response", shape, "input must be refused but no response was produced (closed=%s, end=%s); limits header=%d body=%d d=%d; input %r" % (
                s.closed, k.end_reason, sc["max_header"], sc["max_body"], sc["d"], stream[:100]))
        elif not exp["may_wait"] and not exp.get("anything") and not s.closed:
            res.v("unanswered", shape, "no response and connection open for a complete message")
    elif refused:
        r = finals[0]
        if not (exp["must_refuse"] or exp["may_refuse"]):
            res.v("refused_valid", shape, "input is within the limits but was refused with %d (header limit %d, body limit %d, d=%d): %r" % (
                r.status, sc["max_header"], sc["max_body"], sc["d"], stream[:100]))
        elif exp["statuses"] and r.status not in exp["statuses"]:
            res.v("wrong_status", shape + ":%d" % r.status, "refused with %d, expected one of %r (header limit %d, body limit %d, d=%d)" % (
                r.status, sorted(exp["statuses"]), sc["max_header"], sc["max_body"], sc["d"]))
        if not r.complete or r.problems:
            res.v("error_response_malformed", shape, "error response %d incomplete or malformed: %r %r" % (r.status, r.problems, probs))
        if exp.get("no_interim") and any(x.interim for x in rs):
            res.v("more_than_one_response", shape + ":interim", "an interim response was sent for a request that is refused on its header block: %r" % (wire[:60],))
        if len(finals) > 1:
            res.v("more_than_one_response", shape, "further response(s) after the error response: %r" % ([x.status for x in finals[1:]],))
        if probs and probs[0][0] not in ("leftover",):
            res.v("error_response_malformed", shape + ":stream", "bytes after the error response: %r" % (probs,))
        if not s.closed:
            res.v("not_closed", shape, "connection still open after the error response")
        if not r.close_announced:
            res.v("not_closed", shape + ":no_close_header", "error response lacks Connection: close")
        if calls:
            res.v("application_called", shape, "the refused input reached the application: %r" % (calls,))
        # consumption: recv calls with data after the refusal point
        first_send = s.send_log[0][0] if s.send_log else None
        data_recvs_after = [e for e in k.history if e[2] == "recv" and e[3] == 0 and e[4] > 0 and first_send is not None and e[0] > first_send]
        if len(data_recvs_after) > 1:
            # (one read may already be in flight when the worker starts answering: readable() is evaluated
            # without a lock; its data is dropped unparsed by received().  The property allows one read.)
            res.v("kept_consuming", shape, "%d data-bearing recv call(s) after the error response started" % len(data_recvs_after))
        # reads after the read in which the limit was crossed
        if exp["cross_pos"] is not None:
            crossing = None
            tot = 0
            reads_after_cross = 0
            for e in k.history:
                if e[2] == "recv" and e[3] == 0 and e[4] > 0:
                    if crossing is not None:
                        reads_after_cross += 1
                    tot += e[4]
                    if crossing is None and tot >= exp["cross_pos"]:
                        crossing = e[0]
            if reads_after_cross > 1:
                res.v("kept_consuming", shape + ":reads", "%d further data-bearing reads after the read in which the limit was crossed (byte %d)" % (reads_after_cross, exp["cross_pos"]))
    elif served:
        if exp["must_refuse"]:
            res.v("accepted_oversize", shape, "input must be refused (header limit %d, body limit %d, d=%d) but the application was called: %r; input %r" % (
                sc["max_header"], sc["max_body"], sc["d"], calls, stream[:100]))
        elif exp.get("accept_path"):
            if not calls or calls[0] != exp["accept_path"]:
                res.v("wrong_request", shape, "application calls %r" % (calls,))
            elif "body_len" in exp and len(app.calls[0]["input"] or b"") != exp["body_len"]:
                res.v("wrong_request", shape + ":body", "application read %d body bytes, message has %d" % (len(app.calls[0]["input"] or b""), exp["body_len"]))
            if sc["follower"] and not exp.get("anything"):
                if len(finals) < 2 or finals[1].status != 200 or calls[1:2] != ["/follower"]:
                    res.v("follower_lost", shape, "message accepted but the pipelined follower was not served: statuses %r calls %r" % ([x.status for x in finals], calls))
    else:
        res.v("unexpected_status", shape, "first response status %r" % (finals[0].status,))
    for t in sim.final_threads:
        if t[3] is not None or (t[0] == "io" and not t[2]):
            res.v("thread_died", t[0], "thread %s alive=%s exc=%s" % (t[0], t[2], t[3]))
    if k.harness_error:
        res.harness_error = k.harness_error
    res.digest = k.digest()
    res.stats = common.base_stats(sim)
    res.stats["cells"] = ["%s/d=%d/rb=%d/%s" % (sc["shape"], sc["d"], sc["recv_bytes"], "f" if sc["follower"] else "nf")]
    res.interleaving = k.switch_hash.hexdigest()
    res.nontrivial = refused or abs(sc["d"]) <= 2
    res.sample = {"shape": shape, "max_header": sc["max_header"], "max_body": sc["max_body"], "d": sc["d"],
                  "recv_bytes": sc["recv_bytes"], "follower": sc["follower"], "input_len": len(stream),
                  "input_head": stream[:100].decode("latin-1"), "statuses": [r.status for r in finals],
                  "app_calls": calls, "closed": s.closed, "must_refuse": exp["must_refuse"]}
    return res
