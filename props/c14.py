"""C14 - worker pool: every task runs exactly once or is cancelled exactly once."""
import gc
import logging
from collections import deque

import waitress.task

from sim import kernel as _kernel
from sim.kernel import Kernel
from sim.shims import ThreadingShim, TimeShim
from sim.harness import LogCapture, TRACE_FILES_TASK, _generation
from sim.runner import RunResult
from . import common

PROPERTY = "C14"
LEVEL = "exploration"
BUDGET = {"quick": 60, "thorough": 600}
EVIDENCE = {
    "rule": "a real ThreadedTaskDispatcher driven by 1-3 simulated submitter threads (<= 12 tasks; task bodies sleep, "
            "raise Exception/BaseException, or submit a follow-up task), 1-3 workers, up to 3 set_thread_count calls (some back to "
            "back) and at most one shutdown(cancel_pending, timeout) at a seeded point, in a third of those runs with a second "
            "controlling thread resizing the pool around the same time; scheduler: random walk over lock/condition "
            "operations and source lines of task.py; the queue is observed through a recording deque (append / pop "
            "order under the dispatcher's own lock); distinct = distinct history digest; non-trivial = >= 2 tasks and "
            ">= 1 context switch between two pool operations",
    "real": ["waitress.task.ThreadedTaskDispatcher (unmodified)", "logging"],
    "stub": ["thread scheduler", "threading.Lock/Condition/Thread", "time.time", "tasks (scripted service()/cancel())"],
    "assumptions": [
        "'submitted before shutdown' means the task's queue append happened before shutdown() was called",
        "hand-out order is the order of queue pops, which must equal the order of queue appends; start order may lag by at most (workers-1)",
        "resizes never request fewer than 1 worker (a pool of 0 workers legitimately runs nothing)",
    ],
}


class RecDeque(deque):
    k = None

    def append(self, t):
        self.k.log("q_append", t.tid)
        deque.append(self, t)

    def popleft(self):
        t = deque.popleft(self)
        self.k.log("q_pop", t.tid, "left")
        return t

    def pop(self):
        t = deque.pop(self)
        self.k.log("q_pop", t.tid, "right")
        return t


class T:
    def __init__(self, env, tid, script):
        self.env = env
        self.tid = tid
        self.script = script

    def __repr__(self):
        return "<T %s>" % self.tid

    def service(self):
        env = self.env
        k = env["k"]
        k.log("svc_begin", self.tid)
        k.progress += 1
        sc = self.script
        if sc.get("sleep"):
            k.block_until(None, k.now + sc["sleep"], "task.sleep", active=True)
        if sc.get("follow") is not None:
            f = T(env, sc["follow"]["tid"], sc["follow"])
            env["tasks"][f.tid] = f
            env["disp"].add_task(f)
            k.log("submitted", f.tid)
        k.log("svc_end", self.tid)
        if sc.get("raise") == "exc":
            raise common.AppExc("task %s" % self.tid)
        if sc.get("raise") == "base":
            raise common.AppBaseExc("task %s" % self.tid)

    def cancel(self):
        self.env["k"].log("cancel", self.tid)


def gen(W):
    sc = {}
    sc["workers"] = 1 + W.draw(3)
    nsub = 1 + W.draw(3)
    tid = [0]

    def task():
        t = {"tid": tid[0]}
        tid[0] += 1
        t["sleep"] = W.choice([0, 0.0002, 0.01, 0.3], p0=0.5)
        t["raise"] = W.choice([None, "exc", "base"], p0=0.8)
        if W.chance(0.2) and tid[0] < 12:
            t["follow"] = {"tid": tid[0], "sleep": W.choice([0, 0.001]), "raise": None}
            tid[0] += 1
        return t

    subs = []
    for s in range(nsub):
        ops = []
        for _ in range(1 + W.draw(5)):
            if tid[0] >= 12:
                break
            if W.chance(0.3):
                ops.append(["sleep", W.choice([0.0001, 0.002, 0.05])])
            ops.append(["add", task()])
        subs.append(ops)
    ctl = []
    for _ in range(W.draw(4)):
        # (0.0: the next call follows at once, while workers told to stop are still on their way out)
        ctl.append(["sleep", W.choice([0.0001, 0.001, 0.02, 0.2, 0.0])])
        ctl.append(["resize", 1 + W.draw(3)])
    sc["shutdown"] = None
    sc["ctl2"] = []
    if W.chance(0.6):
        pause = W.choice([0.0, 0.0003, 0.004, 0.05, 0.5])
        ctl.append(["sleep", pause])
        ctl.append(["shutdown", bool(W.draw(2)), W.choice([5, 0.05, 0.0])])
        if W.chance(0.35):
            # a second controlling thread resizes the pool around the time of the shutdown
            t0 = sum(op[1] for op in ctl if op[0] == "sleep")
            sc["ctl2"] = [["sleep", max(0.0, t0 + W.choice([0.0, -0.0001, 0.0001, 0.001]))], ["resize", 1 + W.draw(3)]]
            if W.chance(0.4):
                sc["ctl2"] += [["sleep", W.choice([0.0, 0.0002])], ["resize", 1 + W.draw(3)]]
    elif ctl and W.chance(0.4):
        # no shutdown: a second controlling thread resizes the pool while (or right after) the first one does;
        # set_thread_count is atomic, so the pool must end at the size asked for by a call that can be last
        nth = W.draw(len(ctl) // 2)
        t0 = sum(op[1] for op in ctl[:2 * nth + 1] if op[0] == "sleep")
        sc["ctl2"] = [["sleep", max(0.0, t0 + W.choice([0.0, -0.0001, 0.0001, 0.001]))], ["resize", 1 + W.draw(3)]]
        if W.chance(0.4):
            sc["ctl2"] += [["sleep", W.choice([0.0, 0.0002])], ["resize", 1 + W.draw(3)]]
    sc["subs"] = subs
    sc["ctl"] = ctl
    sc["sched"] = {"kind": W.choice(["walk", "rtb"], p0=0.8), "gap_mean": W.choice([2, 5, 15, 50])}
    sc["trace"] = W.chance(0.5)
    if sc["trace"]:
        sc["sched"]["gap_mean"] *= 4
    return sc


def run_one(tapes, tier, scenario=None):
    sc = scenario if scenario is not None else gen(tapes.W)
    res = RunResult()
    res.scenario = sc
    _generation[0] += 1
    k = Kernel(tapes, sched=sc["sched"], step_cap=100000, horizon=600.0, stop_at_idle=False,
               trace_files=TRACE_FILES_TASK if sc["trace"] else (), generation=_generation[0])
    th = ThreadingShim(k)
    tm = TimeShim(k)
    old = (waitress.task.threading, waitress.task.time)
    waitress.task.threading = th
    waitress.task.time = tm
    logcap = LogCapture(k)
    lg = logging.getLogger("waitress")
    oldlog = (lg.handlers[:], lg.propagate, lg.level)
    lg.handlers[:] = [logcap]
    lg.propagate = False
    lg.setLevel(logging.INFO)
    snap = {}
    try:
        disp = waitress.task.ThreadedTaskDispatcher()
        q = RecDeque()
        q.k = k
        disp.queue = q
        env = {"k": k, "disp": disp, "tasks": {}}
        disp.set_thread_count(sc["workers"])

        def submitter(ops):
            for op in ops:
                if op[0] == "sleep":
                    k.block_until(None, k.now + op[1], "sub.sleep", active=True)
                else:
                    t = T(env, op[1]["tid"], op[1])
                    env["tasks"][t.tid] = t
                    disp.add_task(t)
                    k.log("submitted", t.tid)

        def controller(ops):
            for op in ops:
                if op[0] == "sleep":
                    k.block_until(None, k.now + op[1], "ctl.sleep", active=True)
                elif op[0] == "resize":
                    k.log("resize_call", op[1])
                    disp.set_thread_count(op[1])
                    k.log("resize_done", op[1])
                else:
                    k.log("shutdown_call", op[1], op[2])
                    r = disp.shutdown(cancel_pending=op[1], timeout=op[2])
                    k.log("shutdown_done", r)

        for i, ops in enumerate(sc["subs"]):
            k.spawn("s%d" % i, submitter, (ops,), kind="submitter")
        if sc["ctl"]:
            k.spawn("ctl", controller, (sc["ctl"],), kind="ctl")
        if sc.get("ctl2"):
            k.spawn("ctl2", controller, (sc["ctl2"],), kind="ctl")

        def on_finish(k):
            snap["queue"] = [t.tid for t in disp.queue]
            snap["threads"] = sorted(disp.threads)
            snap["stop_count"] = disp.stop_count
            snap["active_count"] = disp.active_count

        k.on_finish = on_finish
        lost = []

        def on_all_blocked(k):
            # every thread is blocked: a queued task next to a worker parked on the queue condition (and no stop
            # pending) means that the wake-up for that task was lost - it now waits for somebody else's notify
            if lost or not disp.queue or disp.stop_count:
                return
            idle = [t.name for t in k.threads if t.alive and t.kind == "worker" and t.blocked is not None
                    and str(t.blocked[2]).startswith("cv.wait:task:54")]
            if idle:
                lost.append(([t.tid for t in disp.queue], idle, k.seq))

        k.on_all_blocked = on_all_blocked
        k.run()
    finally:
        waitress.task.threading, waitress.task.time = old
        lg.handlers[:] = oldlog[0]
        lg.propagate = oldlog[1]
        lg.setLevel(oldlog[2])
        k.on_finish = None
        k.on_all_blocked = None
        gc.collect()

    # ---------------------------------------------------------------- oracle
    H = k.history
    appended, popped, begun, ended, cancelled = [], [], [], [], []
    seq_of = {}
    shutdown_call = None
    shutdown_args = None
    shutdown_done = None
    last_resize = sc["workers"]
    resizes = []  # [seq of the call, seq of its return, count, calling thread]
    for e in H:
        kind = e[2]
        if kind == "q_append":
            appended.append(e[3])
            seq_of[("append", e[3])] = e[0]
        elif kind == "q_pop":
            popped.append(e[3])
            if e[4] != "left":
                res.v("order", "pop_from_wrong_end", "task %r popped from the right end of the queue" % (e[3],))
        elif kind == "svc_begin":
            begun.append(e[3])
            seq_of[("begin", e[3])] = e[0]
        elif kind == "svc_end":
            ended.append(e[3])
        elif kind == "cancel":
            cancelled.append(e[3])
        elif kind == "shutdown_call":
            shutdown_call = e[0]
            shutdown_args = (e[3], e[4])
        elif kind == "shutdown_done":
            shutdown_done = e[0]
        elif kind == "resize_call":
            resizes.append([e[0], None, e[3], e[1]])
        elif kind == "resize_done":
            last_resize = e[3]
            for r in reversed(resizes):
                if r[3] == e[1] and r[1] is None:
                    r[1] = e[0]
                    break
    if lost:
        res.v("lost_wakeup", "idle_worker_with_queued_task", "all threads blocked at seq %d with task(s) %r queued while worker(s) %r sleep on the queue condition" % (
            lost[0][2], lost[0][0], lost[0][1]))
    for tid in set(appended):
        n = begun.count(tid) + cancelled.count(tid)
        if n > 1:
            what = "run_twice" if begun.count(tid) > 1 else ("cancelled_twice" if cancelled.count(tid) > 1 else "run_and_cancelled")
            res.v("exactly_once", what, "task %r: service() x%d, cancel() x%d" % (tid, begun.count(tid), cancelled.count(tid)))
    # FIFO hand-out
    if popped != appended[:len(popped)]:
        res.v("order", "pop_order", "queue pops %r are not a prefix of appends %r" % (popped, appended))
    # start order lag
    maxw = max([sc["workers"]] + [op[1] for op in sc["ctl"] + sc.get("ctl2", []) if op[0] == "resize"])
    started = set()
    for tid in begun:
        idx = appended.index(tid) if tid in appended else None
        if idx is not None:
            earlier_unstarted = [t for t in appended[:idx] if t not in started and t not in cancelled]
            if len(earlier_unstarted) >= maxw:
                res.v("order", "start_lag", "task %r started while %d earlier tasks %r had not (max workers %d)" % (
                    tid, len(earlier_unstarted), earlier_unstarted, maxw))
                break
        started.add(tid)
    if k.end_reason in ("quiescent", "idle"):
        dead_workers = [t for t in k.final_threads if t[1] == "worker" and t[3] is not None]
        for t in dead_workers:
            res.v("worker_died", t[3], "worker %s died with %s" % (t[0], t[3]))
        alive_workers = [t for t in k.final_threads if t[1] == "worker" and t[2]]
        if shutdown_call is None:
            # everything submitted must have run exactly once
            for tid in appended:
                if begun.count(tid) != 1:
                    res.v("lost", "never_run", "task %r was submitted but service() ran %d times (queue at end %r, workers alive %d)" % (
                        tid, begun.count(tid), snap.get("queue"), len(alive_workers)))
                    break
            # set_thread_count is atomic (it runs under the dispatcher lock): the pool ends at the size asked for by
            # the call that took effect last, and a call can be that one only if no other call began after it returned
            done = [r for r in resizes if r[1] is not None]
            can_be_last = sorted(set(r[2] for r in done if not any(o is not r and o[0] > r[1] for o in resizes))) or [last_resize]
            if any(r[1] is None for r in resizes):
                res.v("resize", "call_never_returned", "a set_thread_count call had not returned at quiescence: %r" % (resizes,))
            elif len(alive_workers) not in can_be_last:
                res.v("resize", "no_convergence", "%d workers alive at quiescence, the last set_thread_count asked for %s; dispatcher threads=%r stop_count=%r" % (
                    len(alive_workers), " or ".join(str(c) for c in can_be_last), snap.get("threads"), snap.get("stop_count")))
            elif len(snap.get("threads") or ()) != len(alive_workers) or snap.get("stop_count"):
                res.v("resize", "accounting", "%d workers alive at quiescence but the dispatcher records threads=%r stop_count=%r" % (
                    len(alive_workers), snap.get("threads"), snap.get("stop_count")))
        else:
            cancel_pending, timeout = shutdown_args
            before = [tid for tid in appended if seq_of[("append", tid)] < shutdown_call]
            for tid in before:
                n = begun.count(tid) + cancelled.count(tid)
                if cancel_pending:
                    if n != 1:
                        res.v("lost", "neither_run_nor_cancelled", "task %r submitted before shutdown(cancel_pending=True): service x%d cancel x%d; queue at end %r" % (
                            tid, begun.count(tid), cancelled.count(tid), snap.get("queue")))
                        break
                else:
                    if n == 0 and tid not in (snap.get("queue") or []):
                        res.v("lost", "vanished", "task %r submitted before shutdown(cancel_pending=False) was neither run nor is it still queued (%r)" % (
                            tid, snap.get("queue")))
                        break
                    if cancelled.count(tid):
                        res.v("exactly_once", "cancelled_without_cancel_pending", "task %r cancelled although cancel_pending=False" % (tid,))
            if shutdown_done is not None:
                if alive_workers and not sc.get("ctl2"):
                    # (with a resize racing the shutdown the final size of the pool is not determined)
                    res.v("shutdown", "worker_left", "%d worker(s) still alive at quiescence after shutdown: %r" % (len(alive_workers), alive_workers))
                if cancel_pending:
                    left = [t for t in (snap.get("queue") or []) if t in before]
                    if left:
                        res.v("shutdown", "queue_not_empty", "queue still holds %r after a cancelling shutdown" % (left,))
    elif k.end_reason == "step_cap":
        res.harness_error = "step cap"
    if k.harness_error:
        res.harness_error = k.harness_error
    res.digest = k.digest()
    faults = {}
    res.stats = {"steps": k.steps, "switches": k.switches, "sim_seconds": k.end_time - k.t0,
                 "probes": dict(k.probes), "faults": faults, "end": k.end_reason}
    res.interleaving = k.switch_hash.hexdigest()
    res.nontrivial = len(appended) >= 2 and k.switches > len(k.threads) + 2
    res.sample = {"workers": sc["workers"], "submitters": [[(op[0], op[1] if op[0] == "sleep" else {kk: vv for kk, vv in op[1].items() if vv}) for op in ops] for ops in sc["subs"]],
                  "controller": sc["ctl"], "sched": sc["sched"], "trace_task_py": sc["trace"],
                  "appended": appended, "begun": begun, "cancelled": cancelled, "end": k.end_reason,
                  "switches": k.switches}
    return res
