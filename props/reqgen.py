"""Generator of HTTP/1.x request streams: grammar sentences plus labelled
single-token near-misses, each with its R1 verdict (ACCEPT / REJECT / EITHER).

A message is a dict; render(m) gives its bytes.  The verdict rules are
DESIGN.md appendix A.  verdict tuple:
  ("ACCEPT", must_close)
  ("REJECT",)
  ("EITHER", {"must_close": True|False|None, "dontcare": set of aspects})   refusal is always allowed too
aspects: "method", "target", "fields", "body", "version"
"""
from models import r1_request

CRLF = b"\r\n"

METHODS = [b"GET", b"POST", b"PUT", b"DELETE", b"OPTIONS", b"M-SEARCH", b"PATCH"]
FIELD_NAMES = [b"X-Foo", b"Accept", b"x-lower", b"X_Under", b"Content-Type", b"User-Agent", b"X-Foo",
               b"Cookie", b"X-Forwarded-For", b"Remote-Addr", b"Server-Name", b"X-9", b"If-None-Match"]
FIELD_VALUES = [b"a", b"text/plain", b"x y", b"\xe9t\xe9", b"a, b", b"", b"1", b"w/\"etag\"", b"a\tb", b"v=1; q=0.5"]

MUT_REQLINE = ["target_bad_ipv6", "target_odd_chars", "lead_crlf", "lead_ws", "method_lower", "version_other", "version_absent", "reqline_extra_sp",
               "reqline_tab", "reqline_trailing_ws", "reqline_bare_lf", "reqline_bare_cr", "reqline_tail_lf", "reqline_tail_cr"]
SEPARATORS = [b"(", b")", b",", b"/", b":", b";", b"<", b"=", b">", b"?", b"@", b"[", b"\\", b"]", b"{", b"}", b'"']
MUT_HEADER = ["name_separator", "hdr_bare_lf_term", "hdr_bare_cr_term", "hdr_lf_in_value", "hdr_cr_in_value", "head_end_lflf",
              "head_end_crlflf", "ws_before_colon", "name_space", "name_empty", "name_paren", "no_colon_line",
              "obs_fold", "ws_first_header_line", "ctl_in_value", "nul_in_value", "dup_host", "dup_content_type"]
MUT_CL = ["dup_cl_same", "dup_cl_diff", "cl_list_same", "cl_list_diff", "cl_plus", "cl_minus", "cl_hex",
          "cl_underscore", "cl_comma_sep", "cl_inner_ws", "cl_nonascii_digit", "cl_empty", "cl_float", "cl_vt",
          "cl_huge", "cl_leading_zeros", "cl_underscore_alias", "cl_nbsp"]
MUT_TE = ["te_case", "te_pad", "te_cl_both", "te_gzip", "te_identity", "te_gzip_chunked", "te_chunked_gzip",
          "te_chunked_chunked", "te_two_fields", "te_vt", "te_xchunked", "te_empty_elem_lead", "te_empty_elem_trail",
          "te_param", "te_on_10", "te_on_10_keepalive", "te_underscore_alias", "te_on_versionless", "te_empty_with_cl"]
MUT_CHUNK = ["csize_junk_then_ext", "csize_bws_then_ext", "csize_leading_crlf", "csize_empty", "csize_plus", "csize_0x", "csize_ws_before", "csize_ws_after", "csize_bare_lf",
             "csize_nonascii", "csize_huge", "csize_upper", "csize_leading_zeros", "csize_underscore", "csize_vt",
             "cext_valid_token", "cext_valid_noval", "cext_valid_quoted", "cext_semicolon_only", "cext_no_name",
             "cext_empty_val", "cext_unterminated_quote", "cext_ctl", "cext_lf", "cext_bws", "cext_bws2",
             "cdata_no_crlf", "cdata_lf_only", "cdata_cr_only", "last_ext", "last_00", "last_bare_lf",
             "trailer_valid", "trailer_bare_lf", "trailer_no_colon", "trailer_ws_before_colon", "trailer_bad_name",
             "trailer_obs_fold", "trailer_end_lf", "trailer_ctl", "trailer_separator_in_name", "cext_separator_in_name"]
ALL_MUTATIONS = MUT_REQLINE + MUT_HEADER + MUT_CL + MUT_TE + MUT_CHUNK

STRICT_REJECT = set("""reqline_tail_lf reqline_tail_cr hdr_bare_lf_term hdr_bare_cr_term hdr_lf_in_value hdr_cr_in_value head_end_lflf head_end_crlflf
 ws_before_colon name_space name_empty name_paren dup_cl_same dup_cl_diff cl_list_same cl_list_diff cl_plus cl_minus
 cl_hex cl_underscore cl_comma_sep cl_inner_ws cl_nonascii_digit cl_empty cl_float cl_vt cl_huge cl_nbsp
 te_gzip te_identity te_gzip_chunked te_chunked_gzip te_chunked_chunked te_two_fields te_vt te_xchunked
 csize_empty csize_plus csize_0x csize_ws_before csize_ws_after csize_bare_lf csize_nonascii csize_huge
 csize_underscore csize_vt cext_semicolon_only cext_no_name cext_empty_val cext_unterminated_quote cext_ctl cext_lf
 cdata_no_crlf cdata_lf_only cdata_cr_only last_bare_lf csize_leading_crlf csize_junk_then_ext
 name_separator trailer_separator_in_name cext_separator_in_name trailer_bare_lf trailer_no_colon trailer_ws_before_colon
 trailer_bad_name trailer_end_lf trailer_ctl""".split())
ACCEPT_VARIANTS = set("""te_case te_pad cl_leading_zeros cl_underscore_alias te_underscore_alias csize_upper
 csize_leading_zeros cext_valid_token cext_valid_noval cext_valid_quoted last_ext last_00 trailer_valid""".split())


def gen_target(W, idx):
    form = W.weighted([8, 2, 1, 1])
    path = b"/m%d" % idx
    extra = W.choice([b"", b"/a/b", b"/%41%2f", b"/x;p=1", b"//dbl", b"/a%zz", b"/~u/._-", b"/%e9"])
    q = W.choice([b"", b"?a=1&b=2", b"?", b"?x=%20y", b"?q=a?b#c"])
    if form == 0:
        return path + extra + q, "origin"
    if form == 1:
        return b"http://example.com:8080" + path + extra + q, "absolute"
    if form == 2:
        return b"*", "asterisk"
    return b"example.com:443", "authority"


def gen_message(W, idx, o=None):
    o = o or {}
    m = {"idx": idx, "mutation": None}
    tgt, form = gen_target(W, idx)
    m["target_form"] = form
    m["method"] = W.choice(METHODS, p0=0.4)
    if form == "asterisk":
        m["method"] = b"OPTIONS"
    elif form == "authority":
        m["method"] = b"CONNECT"
    m["target"] = tgt
    m["version"] = W.choice(["1.1", "1.0"], p0=0.85)
    fields = [(b"Host", b"example.com")]
    for _ in range(W.draw(4)):
        nm = W.choice(FIELD_NAMES)
        if nm.lower() in (b"content-type", b"host") and any(f[0].lower() == nm.lower() for f in fields):
            continue  # repeated singleton fields are a mutation (dup_*), not a canonical sentence
        fields.append((nm, W.choice(FIELD_VALUES)))
    fields.append((b"X-Idx", b"%d" % idx))
    m["conn"] = W.choice([None, b"close", b"keep-alive", b"Keep-Alive", b"Close"], p0=0.6)
    if m["conn"]:
        fields.append((b"Connection", m["conn"]))
    framing = W.weighted([5, 3, 3])
    m["framing"] = ["none", "cl", "chunked"][framing]
    if m["framing"] == "chunked" and m["version"] != "1.1":
        m["framing"] = "cl"
    body = b""
    if m["framing"] != "none":
        n = W.choice([0, 1, 5, 37, 300, o.get("big_body", 2000)])
        body = (b"body-%d-" % idx) * (n // 7 + 1)
        body = body[:n]
        if W.chance(0.15) and n >= 20:
            # a body that looks like a request (smuggling bait)
            body = (b"GET /smuggled%d HTTP/1.1\r\nHost: evil\r\n\r\n" % idx)
    m["body"] = body
    m["chunks"] = []
    m["trailers"] = []
    m["last"] = b"0"
    if m["framing"] == "chunked":
        nch = 1 + W.draw(3)
        step = max(1, len(body) // nch)
        pos = 0
        while pos < len(body):
            m["chunks"].append({"data": body[pos:pos + step], "ext": b"", "size": None, "term": CRLF})
            pos += step
        if W.chance(0.2):
            m["trailers"].append(b"X-Trailer: t")
    m["fields"] = fields
    return m


def pick_mutation(W, m, labels=None):
    """choose a mutation applicable to m (or adapt m so that it is)."""
    label = W.choice(labels or ALL_MUTATIONS)
    return label


def apply_mutation(m, label, W):
    """mutates m in place; sets m['mutation'], m['verdict']."""
    m["mutation"] = label
    ov = m.setdefault("ov", {})
    fields = m["fields"]

    def ensure_cl(n=5):
        if m["framing"] != "cl":
            m["framing"] = "cl"
            m["chunks"] = []
            m["trailers"] = []
        if not m["body"]:
            m["body"] = b"x" * n

    def ensure_chunked():
        if m["version"] != "1.1":
            m["version"] = "1.1"
        if m["framing"] != "chunked" or not m["chunks"]:
            m["framing"] = "chunked"
            if not m["body"]:
                m["body"] = b"hello-chunk"
            b = m["body"]
            h = max(1, len(b) // 2)
            m["chunks"] = [{"data": b[:h], "ext": b"", "size": None, "term": CRLF}]
            if b[h:]:
                m["chunks"].append({"data": b[h:], "ext": b"", "size": None, "term": CRLF})

    either = lambda must_close=None, dontcare=(): ("EITHER", {"must_close": must_close, "dontcare": set(dontcare)})
    V = None
    # ---------------------------------------------------------- request line
    if label == "target_bad_ipv6":
        # syntactically broken authority in the request-target: refusing is right, accepting as an opaque
        # target is tolerable, raising is not
        m["target"] = W.choice([b"http://[/", b"http://[::1/x", b"//[/y", b"http://]/", b"http://[v1.x]/p", b"http://[::1]:x/",
                                b"https://[[::1]]/", b"http://a]b/"])
        V = either(dontcare=("target", "method"))
    elif label == "target_odd_chars":
        m["target"] = W.choice([b"/a\\b", b"/a|b", b"/a^b", b"/a`b", b"/{x}", b"/a\"b", b"/<x>", b"/a%", b"/%%", b"/a%2", b"?only=query",
                                b"/a?b?c", b"/;;;", b"/..%2f..", b"/a\x7fb", b"/a\x01b"])
        V = either(dontcare=("target", "method"))
    elif label == "lead_crlf":
        ov["prefix"] = CRLF * (1 + W.draw(2))
        V = either(dontcare=())
    elif label == "lead_ws":
        ov["prefix"] = W.choice([b" ", b"\t", b" \r\n"])
        V = either()
    elif label == "method_lower":
        m["method"] = m["method"].lower()
        V = either(dontcare=("method",))
    elif label == "version_other":
        ov["version"] = W.choice([b"HTTP/2.0", b"HTTP/1.2", b"HTTP/0.9", b"HTTP/3.0"])
        V = either(must_close=None, dontcare=("version",))
        if m["framing"] == "chunked":
            to_cl(m)
    elif label == "version_absent":
        ov["version"] = None
        V = either(must_close=None, dontcare=("version",))
        if m["framing"] == "chunked":
            to_cl(m)
    elif label == "reqline_extra_sp":
        ov["sp1"] = b"  "
        V = either(dontcare=("method", "target"))
    elif label == "reqline_tab":
        ov["sp1"] = b"\t"
        V = either(dontcare=("method", "target"))
    elif label == "reqline_trailing_ws":
        ov["reqline_tail"] = W.choice([b" ", b"\t"])
        V = either(dontcare=("version",))
    elif label in ("reqline_tail_lf", "reqline_tail_cr"):
        # a bare LF / CR between the request line and its CRLF: a peer that takes LF as a line end sees the
        # header section end right there
        ov["reqline_tail"] = b"\n" if label == "reqline_tail_lf" else b"\r"
    elif label == "reqline_bare_lf":
        ov["reqline_term"] = b"\n"
        V = either(dontcare=("method", "target", "fields", "version"))
    elif label == "reqline_bare_cr":
        ov["reqline_term"] = b"\r"
        V = either(dontcare=("method", "target", "fields", "version"))
    # ------------------------------------------------------- header section
    elif label in ("hdr_bare_lf_term", "hdr_bare_cr_term"):
        i = W.draw(len(fields))
        ov.setdefault("line_term", {})[i] = b"\n" if label == "hdr_bare_lf_term" else b"\r"
        if i > 0 and fields[i][0] is not None and W.chance(0.5):
            # the offending line gets quoted in the server's diagnostics: give it bytes that are not valid UTF-8
            fields[i] = (fields[i][0], W.choice([b"\xe9t\xe9", b"\xff", b"a\x80b", b"\xc3(", b"caf\xe9"]))
    elif label in ("hdr_lf_in_value", "hdr_cr_in_value"):
        ch = b"\n" if label == "hdr_lf_in_value" else b"\r"
        fields.insert(1 + W.draw(len(fields)), (b"X-Inj", W.choice([b"a", b"\xe9", b"\xff\xfe"]) + ch + b"Content-Length: 0"))
    elif label == "head_end_lflf":
        ov["head_end"] = b"\n"
        ov.setdefault("line_term", {})[len(fields) - 1] = b"\n"
    elif label == "head_end_crlflf":
        ov["head_end"] = b"\n"
    elif label == "ws_before_colon":
        i = W.draw(len(fields))
        ov.setdefault("colon", {})[i] = W.choice([b" :", b"\t:"])
        if W.chance(0.4):
            fields.append((b"Content-Length", b"0"))
            ov["colon"][len(fields) - 1] = b" :"
    elif label == "name_separator":
        # every RFC 9110 delimiter, at the start, in the middle or at the end of an otherwise valid name
        sep = W.choice(SEPARATORS)
        base = W.choice([b"X-Sep", b"Content-Length", b"X-Forwarded-For", b"Transfer-Encoding"])
        pos = W.draw(3)
        nm = sep + base if pos == 0 else (base[:3] + sep + base[3:] if pos == 1 else base + sep)
        if sep == b":" and pos != 0:
            nm = b":" + base  # (a colon inside or after the name is just the field separator)
        fields.insert(1, (nm, b"1"))
    elif label == "name_space":
        fields.insert(1, (b"X Bad", b"v"))
    elif label == "name_empty":
        fields.insert(1, (b"", b"v"))
    elif label == "name_paren":
        fields.insert(1, (W.choice([b"X(Bad)", b"X@Y", b"X/Y", b"X\x7fY", b"\xe9"]), b"v"))
    elif label == "no_colon_line":
        fields.insert(1, (None, b"JustSomeWordsWithoutColon"))
        V = either(dontcare=("fields",))
    elif label == "obs_fold":
        fields.insert(1, (b"X-Folded", b"a\r\n " + W.choice([b"b", b"\tb", b"  b c"])))
        V = either(dontcare=("fields",))
    elif label == "ws_first_header_line":
        ov["first_line_ws"] = W.choice([b" ", b"\t"])
        if W.chance(0.5):
            fields[0] = (fields[0][0], W.choice([b"ex\xe4mple.com", b"\xff.example"]))
        V = either(dontcare=("fields",))
    elif label == "ctl_in_value":
        fields.insert(1, (b"X-Ctl", b"a" + W.choice([b"\x01", b"\x7f", b"\x0b", b"\x0c", b"\x1f"]) + b"b"))
        V = either(dontcare=("fields",))
    elif label == "nul_in_value":
        fields.insert(1, (b"X-Nul", b"a\x00b"))
        V = either(dontcare=("fields",))
    elif label == "dup_host":
        fields.insert(1, (b"Host", W.choice([b"example.com", b"other.example"])))
        V = either(dontcare=("fields",))
    elif label == "dup_content_type":
        fields[:] = [f for f in fields if f[0] is None or f[0].lower() != b"content-type"]
        fields.insert(1, (b"Content-Type", b"a/b"))
        fields.insert(1, (b"content-type", b"c/d"))
        V = either(dontcare=("fields",))
    # ------------------------------------------------------- Content-Length
    elif label.startswith("cl_") or label.startswith("dup_cl"):
        ensure_cl()
        n = len(m["body"])
        ds = b"%d" % n
        if label == "dup_cl_same":
            ov["cl_values"] = [ds, ds]
        elif label == "dup_cl_diff":
            ov["cl_values"] = [ds, b"%d" % (n + 1)] if W.chance(0.5) else [b"0", ds]
        elif label == "cl_list_same":
            ov["cl_values"] = [ds + b", " + ds]
        elif label == "cl_list_diff":
            ov["cl_values"] = [ds + b", 0"] if W.chance(0.5) else [b"0," + ds]
        elif label == "cl_plus":
            ov["cl_values"] = [b"+" + ds]
        elif label == "cl_minus":
            ov["cl_values"] = [W.choice([b"-" + ds, b"-0"])]
        elif label == "cl_hex":
            ov["cl_values"] = [W.choice([b"0x%x" % n, b"0X%x" % n, b"%xh" % n])]
        elif label == "cl_underscore":
            ov["cl_values"] = [ds[:1] + b"_" + ds[1:] if len(ds) > 1 else ds + b"_"]
        elif label == "cl_comma_sep":
            ov["cl_values"] = [b"1,000"]
        elif label == "cl_inner_ws":
            ov["cl_values"] = [ds[:1] + b" " + ds[1:] if len(ds) > 1 else ds + b" 0"]
        elif label == "cl_nonascii_digit":
            ov["cl_values"] = [W.choice([b"\xb2", b"\xb3", b"\xb9", ds + b"\xb2"])]
        elif label == "cl_nbsp":
            ov["cl_values"] = [W.choice([b"\xa0" + ds, ds + b"\xa0", b"\x85" + ds])]
        elif label == "cl_empty":
            ov["cl_values"] = [b""]
        elif label == "cl_float":
            ov["cl_values"] = [W.choice([ds + b".0", ds + b"e0", b"1e1"])]
        elif label == "cl_vt":
            ov["cl_values"] = [W.choice([ds + b"\x0b", b"\x0c" + ds, ds + b"\x1c"])]
        elif label == "cl_huge":
            ov["cl_values"] = [W.choice([b"9" * 5000, b"1" + b"0" * 4400, b"9" * 30])]
        elif label == "cl_leading_zeros":
            ov["cl_values"] = [b"000" + ds]
        elif label == "cl_underscore_alias":
            # Content_Length is not Content-Length: it must be dropped and must not frame anything
            fields.insert(1, (b"Content_Length", b"%d" % (n + 7)))
    # ---------------------------------------------------- Transfer-Encoding
    elif label == "te_empty_with_cl":
        # a Transfer-Encoding field that lists no coding at all next to a Content-Length: if the message is
        # processed (framed by its Content-Length), RFC 9112 6.1 still wants the connection closed after it
        if m["version"] != "1.1":
            m["version"] = "1.1"
        ensure_cl()
        fields.insert(1, (b"Transfer-Encoding", W.choice([b"", b",", b" , ", b",,"])))
        V = either(must_close=True, dontcare=("fields",))
    elif label.startswith("te_"):
        if label in ("te_on_10", "te_on_10_keepalive", "te_on_versionless"):
            ensure_chunked()
            if label == "te_on_versionless":
                ov["version"] = None
            else:
                m["version"] = "1.0"
            fields[:] = [f for f in fields if f[0] is None or f[0].lower() != b"connection"]
            m["conn"] = None
            if label == "te_on_10_keepalive":
                fields.append((b"Connection", b"keep-alive"))
                m["conn"] = b"keep-alive"
            V = either(must_close=True, dontcare=("body", "fields", "version"))
        else:
            ensure_chunked()
            te = {
                "te_case": W.choice([b"Chunked", b"CHUNKED", b"chunKed"]),
                "te_pad": W.choice([b" chunked", b"chunked ", b"\tchunked\t"]),
                "te_cl_both": b"chunked",
                "te_gzip": b"gzip", "te_identity": b"identity",
                "te_gzip_chunked": b"gzip, chunked", "te_chunked_gzip": b"chunked, gzip",
                "te_chunked_chunked": b"chunked, chunked", "te_two_fields": b"chunked",
                "te_vt": W.choice([b"chunked\x0b", b"\x0bchunked", b"chunked\x85", b"chunked\xa0"]),
                "te_xchunked": W.choice([b"xchunked", b"chunkedx", b"chunk", b"x-chunked"]),
                "te_empty_elem_lead": b", chunked", "te_empty_elem_trail": b"chunked,",
                "te_param": W.choice([b"chunked;q=1", b"chunked; foo=bar"]),
                "te_underscore_alias": b"chunked",
            }[label]
            ov["te_value"] = te
            if label == "te_cl_both":
                ov["extra_cl"] = W.choice([b"%d" % len(m["body"]), b"0", b"3", b"", b" ", b"abc"])
                V = either(must_close=True)
            elif label == "te_two_fields":
                ov["te_twice"] = True
            elif label in ("te_empty_elem_lead", "te_empty_elem_trail", "te_param"):
                V = either()
            elif label == "te_underscore_alias":
                # Transfer_Encoding: chunked must be dropped; message then has no body framing
                ov["te_name"] = b"Transfer_Encoding"
                m["framing"] = "none"
                m["chunks"] = []
                m["trailers"] = []
                m["body"] = b""
    # -------------------------------------------------------------- chunks
    else:
        ensure_chunked()
        c = m["chunks"][W.draw(len(m["chunks"]))]
        n = len(c["data"])
        hx = b"%X" % n
        if label == "csize_junk_then_ext":
            # LF / CR / VT / FF between the size and a syntactically valid extension
            c["size"] = hx + W.choice([b"\n", b"\r", b"\x0b", b"\x0c", b"\n\x0b"])
            c["ext"] = W.choice([b";ext=1", b";a", b';q="v"'])
        elif label == "csize_bws_then_ext":
            c["size"] = hx + W.choice([b" ", b"\t", b"  "])
            c["ext"] = W.choice([b";ext=1", b";a"])
            V = either()
        elif label == "csize_leading_crlf":
            # an empty line in front of an otherwise valid chunk-size line
            c["size"] = b"\r\n" + hx
        elif label == "csize_empty":
            c["size"] = b""
        elif label == "csize_plus":
            c["size"] = b"+" + hx
        elif label == "csize_0x":
            c["size"] = W.choice([b"0x" + hx, b"0X" + hx])
        elif label == "csize_ws_before":
            c["size"] = W.choice([b" ", b"\t"]) + hx
        elif label == "csize_ws_after":
            c["size"] = hx + W.choice([b" ", b"\t"])
        elif label == "csize_bare_lf":
            c["size"] = hx + b"\n"
        elif label == "csize_nonascii":
            c["size"] = W.choice([b"\xb2", hx + b"\xb2", b"\xa0" + hx])
        elif label == "csize_huge":
            c["size"] = W.choice([b"F" * 5000, b"1" + b"0" * 30, b"7FFFFFFFFFFFFFFF"])
            # refusal is right; waiting for the (never arriving) rest of the chunk is not a framing guess either
            V = either(dontcare=("may_wait",))
        elif label == "csize_upper":
            c["data"] = (c["data"] + b"0123456789abcdef")[:10 + (n % 6)]
            c["size"] = (b"%x" % len(c["data"])).upper() if W.chance(0.5) else (b"%x" % len(c["data"]))
            rebuild_body(m)
        elif label == "csize_leading_zeros":
            c["size"] = b"000" + hx
        elif label == "csize_underscore":
            c["size"] = hx + b"_"
        elif label == "csize_vt":
            c["size"] = W.choice([hx + b"\x0b", b"\x0c" + hx])
        elif label == "cext_valid_token":
            c["ext"] = W.choice([b";a=b", b";a=b;c=d", b";x-1=~t"])
        elif label == "cext_valid_noval":
            c["ext"] = W.choice([b";a", b";a;b"])
        elif label == "cext_valid_quoted":
            c["ext"] = W.choice([b';a="q"', b';a="q\\"x"', b';a="\xe9 t"', b';a=""'])
        elif label == "cext_semicolon_only":
            c["ext"] = b";"
        elif label == "cext_no_name":
            c["ext"] = b";=v"
        elif label == "cext_empty_val":
            c["ext"] = b";n="
        elif label == "cext_unterminated_quote":
            c["ext"] = W.choice([b';a="q', b';a="q\\"'])
        elif label == "cext_ctl":
            c["ext"] = W.choice([b";a=\x01", b";a\x00", b";a=b\x7f", b';a="\x0b"'])
        elif label == "cext_lf":
            c["ext"] = W.choice([b";a=b\n", b";a\n=b"])
        elif label == "cext_bws":
            c["ext"] = W.choice([b"; a=b", b" ;a=b"])
            V = either()
        elif label == "cext_bws2":
            c["ext"] = W.choice([b";a =b", b";a= b"])
            V = either()
        elif label == "cdata_no_crlf":
            c["term"] = W.choice([b"XX", b"X\r\n", b"", b"X\n", b"\rX", b"\n\n", b"\r\r", b"\n\r",
                                  b"X-Pad: 1\r\n\r\n", b"Ab: c\r\n\r\n"])  # (the last two look like a trailer section)
        elif label == "cdata_lf_only":
            c["term"] = b"\n"
        elif label == "cdata_cr_only":
            c["term"] = b"\r"
        elif label == "last_ext":
            m["last"] = b"0;a=b"
        elif label == "last_00":
            m["last"] = W.choice([b"00", b"0000"])
        elif label == "last_bare_lf":
            m["last"] = b"0\n"
        elif label == "trailer_valid":
            m["trailers"] = [W.choice([b"X-T: v", b"X-T:v", b"Expires: never"])]
        elif label == "trailer_bare_lf":
            m["trailers"] = [b"X-T: v\nX-U: w"]
        elif label == "trailer_no_colon":
            m["trailers"] = [b"JunkWithoutColon"]
        elif label == "trailer_ws_before_colon":
            m["trailers"] = [b"X-T : v"]
        elif label == "trailer_bad_name":
            m["trailers"] = [W.choice([b"X T: v", b": v", b"X(T): v"])]
        elif label == "trailer_separator_in_name":
            sep = W.choice([x for x in SEPARATORS if x != b":"])
            m["trailers"] = [W.choice([b"X" + sep + b"T: v", sep + b"XT: v", b"XT" + sep + b": v"])]
        elif label == "cext_separator_in_name":
            sep = W.choice([x for x in SEPARATORS if x not in (b";", b"=", b'"')])
            c["ext"] = W.choice([b";a" + sep + b"b=1", b";" + sep + b"a=1", b";a" + sep])
        elif label == "trailer_obs_fold":
            m["trailers"] = [b"X-T: a\r\n b"]
            V = either()
        elif label == "trailer_end_lf":
            m["trailers"] = [b"X-T: v"]
            ov["trailer_end"] = b"\n"
        elif label == "trailer_ctl":
            m["trailers"] = [W.choice([b"X-T: a\x00b", b"X-T: a\rb"])]
            if b"\x00" in m["trailers"][0]:
                V = either()
    if V is None:
        if label in STRICT_REJECT:
            V = ("REJECT",)
        elif label in ACCEPT_VARIANTS:
            V = None  # computed by the caller from the message (ACCEPT)
        else:
            raise AssertionError("no verdict for mutation %s" % label)
    m["verdict"] = V
    return m


def to_cl(m):
    m["framing"] = "cl"
    m["chunks"] = []
    m["trailers"] = []


def rebuild_body(m):
    m["body"] = b"".join(c["data"] for c in m["chunks"])


def render(m):
    ov = m.get("ov", {})
    out = bytearray()
    out += ov.get("prefix", b"")
    sp1 = ov.get("sp1", b" ")
    ver = ov.get("version", b"HTTP/" + m["version"].encode())
    line = m["method"] + sp1 + m["target"]
    if ver is not None:
        line += b" " + ver
    line += ov.get("reqline_tail", b"")
    out += line + ov.get("reqline_term", CRLF)
    fields = list(m["fields"])
    # framing fields
    te_name = ov.get("te_name", b"Transfer-Encoding")
    if m["framing"] == "chunked" or "te_value" in ov:
        fields.append((te_name, ov.get("te_value", b"chunked")))
        if ov.get("te_twice"):
            fields.append((b"Transfer-Encoding", b"chunked"))
        if "extra_cl" in ov:
            fields.append((b"Content-Length", ov["extra_cl"]))
    if m["framing"] == "cl":
        for v in ov.get("cl_values", [b"%d" % len(m["body"])]):
            fields.append((b"Content-Length", v))
    m["rendered_fields"] = fields
    lt = ov.get("line_term", {})
    colon = ov.get("colon", {})
    first = True
    for i, (name, val) in enumerate(fields):
        if first and "first_line_ws" in ov:
            out += ov["first_line_ws"]
        first = False
        if name is None:
            out += val
        else:
            out += name + colon.get(i, b":") + (b" " if val != b"" or True else b"") + val
        out += lt.get(i, CRLF)
    out += ov.get("head_end", CRLF)
    m["head_len"] = len(out) - len(ov.get("prefix", b""))
    if "te_value" in ov and ov.get("te_name") and m["framing"] == "none":
        return bytes(out)
    if m["framing"] == "chunked" or (("te_value" in ov) and m["chunks"]):
        for c in m["chunks"]:
            size = c["size"] if c["size"] is not None else b"%X" % len(c["data"])
            out += size + c["ext"] + CRLF + c["data"] + c["term"]
        out += m["last"] + CRLF
        for t in m["trailers"]:
            out += t + CRLF
        out += ov.get("trailer_end", CRLF)
    elif m["framing"] == "cl":
        out += m["body"]
    return bytes(out)


def expected(m):
    """what an application must be given for an accepted message"""
    fields = [(k, v) for k, v in m["rendered_fields"] if k is not None]
    cgi = r1_request.cgi_fields([(k, v.strip(b" \t")) for k, v in fields])
    if m["framing"] == "chunked":
        cgi.pop("CONTENT_LENGTH", None)
        cgi["CONTENT_LENGTH"] = str(len(m["body"]))
    return {"method": m["method"].decode("latin-1"), "target": m["target"].decode("latin-1"),
            "fields": cgi, "body": m["body"], "version": m["version"]}


def base_must_close(m):
    conn = m["conn"].lower() if m["conn"] else None
    if m["version"] == "1.1":
        return conn == b"close"
    return conn != b"keep-alive"


def finalize(m):
    """render, compute the verdict of an unmutated / accept-variant message, and
    self-check the verdict against the independent strict parser R1."""
    raw = render(m)
    m["raw"] = raw
    V = m.get("verdict")
    if V is None:
        V = ("ACCEPT", base_must_close(m))
        m["verdict"] = V
    status = r1_request.parse_message(raw + b"GET /tail HTTP/1.1\r\n\r\n", 0)
    m["r1"] = status[0] if status[0] != "bad" else "bad:" + status[1]
    label = m["mutation"]
    lenient_ok = label in ("cl_underscore_alias", "te_underscore_alias", "dup_host", "dup_content_type",
                          "target_bad_ipv6", "target_odd_chars")  # (R1 does not judge URI syntax or field semantics)
    if V[0] == "ACCEPT":
        if status[0] != "ok":
            raise AssertionError("oracle self-check: generator says ACCEPT (%s) but R1 says %r for %r" % (label, status, raw[:200]))
        pm = status[1]
        if status[2] != len(raw):
            raise AssertionError("oracle self-check: R1 consumed %d of %d bytes for ACCEPT message %r" % (status[2], len(raw), raw[:200]))
        if pm["body"] != m["body"]:
            raise AssertionError("oracle self-check: body mismatch for %s" % label)
    else:
        if status[0] == "ok" and status[2] == len(raw) and not lenient_ok:
            raise AssertionError("oracle self-check: mutation %s produced a message R1 accepts as canonical: %r" % (label, raw[:200]))
    return m
