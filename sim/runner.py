"""Batch driver shared by all property checks: seeded exploration across
worker processes, shrinking, replay files, known findings, evidence."""
import concurrent.futures as cf
import faulthandler
import hashlib
import importlib
import json
import multiprocessing as mp
import os
import subprocess
import sys
import time
import traceback

from .tape import Tapes
from . import kernel as _kernel_mod

VERIF = os.path.dirname(os.path.dirname(os.path.abspath(__file__)))
OUT = os.path.join(VERIF, "out")
REPLAYS = os.path.join(OUT, "replays")
EVIDENCE = os.path.join(VERIF, "evidence")
KNOWN = os.path.join(VERIF, "known_findings.json")

NPROC = min(16, os.cpu_count() or 1)
RUN_WATCHDOG = 120  # wall seconds for a single simulated run


_frozen = [False]


class Violation:
    __slots__ = ("clause", "disc", "msg")

    def __init__(self, clause, disc, msg):
        self.clause = clause
        self.disc = disc
        self.msg = msg

    def sig(self, prop):
        return "%s/%s/%s" % (prop, self.clause, self.disc)

    def __repr__(self):
        return "Violation(%s/%s: %s)" % (self.clause, self.disc, self.msg)


class RunResult:
    def __init__(self):
        self.violations = []
        self.digest = ""
        self.nontrivial = False
        self.stats = {}
        self.sample = None
        self.harness_error = None
        self.interleaving = ""
        self.abstract = ()
        self.scenario = None

    def v(self, clause, disc, msg):
        self.violations.append(Violation(clause, disc, msg))


def load_prop(prop):
    return importlib.import_module("props." + prop.lower())


def run_once(mod, tier, verif_seed, run_index, replay=None, scenario=None):
    """one simulated run.  Returns (RunResult, recorded tapes).  With
    `scenario` the W tape is bypassed: the workload is the pinned scenario."""
    tapes = Tapes(verif_seed, mod.PROPERTY, run_index, replay=replay)
    if not _frozen[0]:
        # everything imported so far is permanent: keep it out of the per-run collections
        import gc
        gc.collect()
        gc.freeze()
        _frozen[0] = True
    faulthandler.dump_traceback_later(RUN_WATCHDOG, exit=True)
    _kernel_mod.WATCHDOG[0] = RUN_WATCHDOG
    try:
        if scenario is not None:
            res = mod.run_one(tapes, tier, scenario=scenario)
        else:
            res = mod.run_one(tapes, tier)
    finally:
        faulthandler.cancel_dump_traceback_later()
    return res, tapes.recorded()


# ------------------------------------------------------------------ shrinking
def shrink(mod, tier, tapes, want_sig, budget_s, scenario=None):
    """generic tape shrinker: keeps a candidate only if the same signature is
    still reported."""
    deadline = time.time() + budget_s
    prop = mod.PROPERTY
    tries = [0]

    def fails(t):
        tries[0] += 1
        try:
            res, rec = run_once(mod, tier, 0, 0, replay=t, scenario=scenario)
        except Exception:
            return None
        if res.harness_error:
            return None
        for v in res.violations:
            if v.sig(prop) == want_sig:
                return rec
        return None

    cur = {k: list(v) for k, v in tapes.items()}
    r = fails(cur)
    if r is None:
        return cur, tries[0], False
    cur = r

    def strip(t):
        for k in t:
            while t[k] and t[k][-1] == 0:
                t[k].pop()
        return t

    cur = strip(cur)
    improved = True
    while improved and time.time() < deadline:
        improved = False
        for name in (("S", "F") if scenario is not None else ("S", "F", "W")):
            # truncate
            lst = cur[name]
            n = len(lst)
            cut = n // 2
            while cut >= 1 and time.time() < deadline:
                if len(cur[name]) > 0:
                    cand = dict(cur)
                    cand[name] = cur[name][: max(0, len(cur[name]) - cut)]
                    r = fails(cand)
                    if r is not None:
                        cur = strip(r)
                        improved = True
                        continue
                cut //= 2
            # zero blocks
            size = max(1, len(cur[name]) // 2)
            while size >= 1 and time.time() < deadline:
                i = 0
                while i < len(cur[name]) and time.time() < deadline:
                    blk = cur[name][i:i + size]
                    if any(blk):
                        cand = dict(cur)
                        cand[name] = cur[name][:i] + [0] * len(blk) + cur[name][i + size:]
                        r = fails(cand)
                        if r is not None:
                            cur = strip(r)
                            improved = True
                    i += size
                size //= 2
            # delete single entries (shifts later draws; often removes one op)
            if len(cur[name]) <= 80:
                i = 0
                while i < len(cur[name]) and time.time() < deadline:
                    cand = dict(cur)
                    cand[name] = cur[name][:i] + cur[name][i + 1:]
                    r = fails(cand)
                    if r is not None:
                        cur = strip(r)
                        improved = True
                    else:
                        i += 1
            # lower values
            i = 0
            while i < len(cur[name]) and time.time() < deadline and len(cur[name]) <= 200:
                v = cur[name][i]
                for nv in (v // 2, v - 1):
                    if 0 <= nv < v:
                        cand = dict(cur)
                        cand[name] = cur[name][:i] + [nv] + cur[name][i + 1:]
                        r = fails(cand)
                        if r is not None:
                            cur = strip(r)
                            improved = True
                            break
                i += 1
    return cur, tries[0], True


# -------------------------------------------------------------------- worker
def _worker(prop, tier, verif_seed, wid, nworkers, budget_s, max_runs, known_sigs, start_index):
    sys.setrecursionlimit(5000)
    mod = load_prop(prop)
    t0 = time.time()
    deadline = t0 + budget_s
    st = {
        "runs": 0, "digests": set(), "nontrivial": set(), "interleavings": set(),
        "abstract": set(), "steps": 0, "switches": 0, "sim_seconds": 0.0,
        "probes": {}, "faults": {}, "ends": {}, "samples": [], "violations": [],
        "known_hits": {}, "harness_errors": [], "cells": {},
    }
    i = start_index + wid
    seen_sigs = set()
    while time.time() < deadline and st["runs"] < max_runs:
        # enumerating families (C09, C13) stop enumerating further placements of the
        # current scenario shortly after the batch deadline (coverage only; never verdicts)
        os.environ["VERIF_RUN_DEADLINE"] = repr(deadline + 10.0)
        try:
            res, rec = run_once(mod, tier, verif_seed, i)
        except Exception:
            st["harness_errors"].append("run %d: %s" % (i, traceback.format_exc()[-1500:]))
            if len(st["harness_errors"]) > 3:
                break
            i += nworkers
            continue
        st["runs"] += 1
        subs = getattr(res, "subruns", None)
        if subs:
            st["evals"] = st.get("evals", 0) + len(subs)
            for dg, nt in subs:
                st["digests"].add(dg[:16])
                if nt:
                    st["nontrivial"].add(dg[:16])
        else:
            st["evals"] = st.get("evals", 0) + 1
        if res.harness_error and str(res.harness_error).startswith("step cap"):
            # a bounded run that reached its step bound decides nothing (the livelock detector and the
            # quiescence oracles are what catch a server that stops making progress); tolerated in small numbers
            st["inconclusive"] = st.get("inconclusive", 0) + 1
            st.setdefault("inconclusive_first", "run %d: %s" % (i, res.harness_error))
            i += nworkers
            continue
        if res.harness_error:
            st["harness_errors"].append("run %d: %s" % (i, res.harness_error))
            if len(st["harness_errors"]) > 3:
                break
        d = res.digest[:16]
        st["digests"].add(d)
        if res.nontrivial:
            st["nontrivial"].add(d)
        if res.interleaving:
            st["interleavings"].add(res.interleaving[:16])
        for a in res.abstract:
            st["abstract"].add(a)
        s = res.stats
        st["steps"] += s.get("steps", 0)
        st["switches"] += s.get("switches", 0)
        st["sim_seconds"] += s.get("sim_seconds", 0.0)
        for k, v in s.get("probes", {}).items():
            st["probes"][k] = st["probes"].get(k, 0) + v
        for k, v in s.get("faults", {}).items():
            st["faults"][k] = st["faults"].get(k, 0) + v
        for k in s.get("cells", ()):
            st["cells"][k] = st["cells"].get(k, 0) + 1
        e = s.get("end", "?")
        st["ends"][e] = st["ends"].get(e, 0) + 1
        if res.sample is not None and len(st["samples"]) < 3 and (res.nontrivial or st["runs"] > 20):
            smp = dict(res.sample)
            smp["run_index"] = i
            st["samples"].append(smp)
        only = os.environ.get("VERIF_ONLY_SIG")
        for v in res.violations:
            sig = v.sig(prop)
            if only and only not in sig:
                continue  # debugging aid: look for one signature only
            if sig in known_sigs:
                st["known_hits"][sig] = st["known_hits"].get(sig, 0) + 1
                continue
            if sig in seen_sigs:
                continue
            seen_sigs.add(sig)
            st["violations"].append({"sig": sig, "msg": v.msg, "run_index": i, "tapes": rec, "scenario": res.scenario})
        if len(st["violations"]) >= 3:
            break
        i += nworkers
    os.environ.pop("VERIF_RUN_DEADLINE", None)
    st["wall"] = time.time() - t0
    for k in ("digests", "nontrivial", "interleavings", "abstract"):
        st[k] = list(st[k])
    return st


def _shrink_job(prop, tier, viol, budget_s):
    mod = load_prop(prop)
    tapes, tries, ok = shrink(mod, tier, viol["tapes"], viol["sig"], budget_s)
    pinned = None
    if not ok and viol.get("scenario") is not None:
        # the scenario did not come from the W tape (an enumerated case): pin it, shrink schedule and faults only
        pinned = viol["scenario"]
        tapes, tries2, ok = shrink(mod, tier, viol["tapes"], viol["sig"], budget_s, scenario=pinned)
        tries += tries2
    # final replay for digest + message
    res, rec = run_once(mod, tier, 0, 0, replay=tapes, scenario=pinned)
    msg = viol["msg"]
    for v in res.violations:
        if v.sig(prop) == viol["sig"]:
            msg = v.msg
    return {"sig": viol["sig"], "msg": msg, "tapes": rec, "digest": res.digest,
            "tries": tries, "reproduced": ok, "sample": res.sample, "scenario": res.scenario,
            "orig_run_index": viol["run_index"]}


# ------------------------------------------------------------------ findings
def load_known(prop):
    try:
        with open(KNOWN) as f:
            data = json.load(f)
    except FileNotFoundError:
        return []
    return [e for e in data.get("findings", []) if e.get("property") == prop]


def replay_file(mod, path, tier=None):
    with open(path) as f:
        rp = json.load(f)
    res, rec = run_once(mod, tier or rp.get("tier", "quick"), 0, 0, replay=rp["tapes"],
                        scenario=rp.get("scenario"))
    return rp, res


# ---------------------------------------------------------------------- main
def selftest(mod, tier, verif_seed, n):
    """same seed twice in-process -> same digest; and once more in a fresh
    interpreter under a different PYTHONHASHSEED."""
    digs = []
    for i in range(n):
        r1, _ = run_once(mod, tier, verif_seed, 10_000_000 + i)
        r2, rec = run_once(mod, tier, verif_seed, 10_000_000 + i)
        if r1.digest != r2.digest:
            return "run %d: digest differs between two in-process runs" % i, digs
        r3, _ = run_once(mod, tier, 0, 0, replay=rec)
        if r3.digest != r1.digest:
            return "run %d: digest differs between run and tape replay" % i, digs
        digs.append(r1.digest)
    return None, digs


def selftest_child(prop, tier, verif_seed, n):
    mod = load_prop(prop)
    digs = []
    for i in range(n):
        r1, _ = run_once(mod, tier, verif_seed, 10_000_000 + i)
        digs.append(r1.digest)
    print("SELFTEST-DIGESTS " + hashlib.sha256("".join(digs).encode()).hexdigest())


def main(argv=None):
    import argparse
    ap = argparse.ArgumentParser()
    ap.add_argument("prop")
    ap.add_argument("--tier", default=os.environ.get("VERIF_TIER", "quick"))
    ap.add_argument("--replay")
    ap.add_argument("--budget", type=float)
    ap.add_argument("--max-runs", type=int, default=10**9)
    ap.add_argument("--procs", type=int, default=NPROC)
    ap.add_argument("--selftest-child", type=int)
    ap.add_argument("--no-selftest", action="store_true")
    ap.add_argument("--start-index", type=int, default=0)
    ap.add_argument("--no-evidence", action="store_true")
    args = ap.parse_args(argv)
    prop = args.prop.upper()
    tier = args.tier if args.tier in ("quick", "thorough") else "quick"
    try:
        verif_seed = int(os.environ.get("VERIF_SEED", "0"))
    except ValueError:
        verif_seed = 0
    mod = load_prop(prop)
    import waitress
    if not os.path.realpath(waitress.__file__).startswith(os.path.join(os.environ.get("VERIF_REPO", "/repo"), "src") + "/"):
        print("HARNESS-ERROR waitress imported from %s" % waitress.__file__)
        return 2

    if args.selftest_child is not None:
        selftest_child(prop, tier, verif_seed, args.selftest_child)
        return 0

    if args.replay:
        rp, res = replay_file(mod, args.replay, tier)
        ok = False
        for v in res.violations:
            print("replayed: %s: %s" % (v.sig(prop), v.msg))
            if v.sig(prop) == rp.get("signature"):
                ok = True
        print("digest %s expected %s" % (res.digest, rp.get("expected_digest")))
        if ok:
            print("VIOLATION property=%s replay=%s" % (prop, args.replay))
            return 1
        print("replay did not reproduce signature %s" % rp.get("signature"))
        return 0

    t_start = time.time()
    os.makedirs(REPLAYS, exist_ok=True)
    os.makedirs(EVIDENCE, exist_ok=True)
    budget = args.budget or getattr(mod, "BUDGET", {}).get(tier, 40 if tier == "quick" else 600)

    # 1. determinism self-test
    st_info = {"ran": False}
    if not args.no_selftest:
        n = getattr(mod, "SELFTEST_N", {}).get(tier, 6 if tier == "quick" else 40)
        err, digs = selftest(mod, tier, verif_seed, n)
        if err:
            print("HARNESS-ERROR determinism self-test failed: %s" % err)
            return 2
        env = dict(os.environ)
        env["PYTHONHASHSEED"] = "12345"
        env["VERIF_SEED"] = str(verif_seed)
        out = subprocess.run(
            [sys.executable, os.path.join(VERIF, "sim", "cli.py"), prop, "--tier", tier,
             "--selftest-child", str(n)], env=env, capture_output=True, text=True, timeout=600)
        want = "SELFTEST-DIGESTS " + hashlib.sha256("".join(digs).encode()).hexdigest()
        if want not in out.stdout:
            print("HARNESS-ERROR determinism self-test: fresh interpreter with another "
                  "PYTHONHASHSEED produced different digests\n%s\n%s" % (out.stdout[-500:], out.stderr[-1500:]))
            return 2
        st_info = {"ran": True, "seeds": n, "in_process_twice": "identical",
                   "tape_replay": "identical", "fresh_interpreter_other_hashseed": "identical"}

    # 2. known findings
    known = load_known(prop)
    known_sigs = {e["signature"] for e in known}
    known_lines = []
    known_report = []
    rc = 0
    violations_out = []
    for e in known:
        path = os.path.join(VERIF, e["replay"])
        try:
            rp, res = replay_file(mod, path, tier)
        except Exception as ex:
            print("HARNESS-ERROR cannot replay known finding %s: %r" % (e.get("id"), ex))
            return 2
        hit = any(v.sig(prop) == e["signature"] for v in res.violations)
        known_report.append({"id": e.get("id"), "signature": e["signature"], "reproduces": hit})
        if hit:
            known_lines.append("KNOWN-FINDING: property=%s %s [%s] %s" % (
                prop, e.get("id"), e["signature"], e.get("description", "")))
        for v in res.violations:
            if v.sig(prop) not in known_sigs:
                # the replay of a known finding shows something else too
                violations_out.append({"sig": v.sig(prop), "msg": v.msg, "run_index": -1,
                                       "tapes": rp["tapes"]})

    # 3. exploration
    nprocs = max(1, args.procs)
    ctx = mp.get_context("fork")
    agg = None
    harness_errors = []
    with cf.ProcessPoolExecutor(max_workers=nprocs, mp_context=ctx) as ex:
        futs = [ex.submit(_worker, prop, tier, verif_seed, w, nprocs, budget, args.max_runs,
                          known_sigs, args.start_index) for w in range(nprocs)]
        results = []
        try:
            for f in cf.as_completed(futs, timeout=budget + RUN_WATCHDOG + 60):
                results.append(f.result())
        except Exception as e:  # broken pool, timeout
            print("HARNESS-ERROR worker failure: %r" % (e,))
            for p in list(getattr(ex, "_processes", {}).values()):
                try:
                    p.kill()
                except Exception:
                    pass
            return 2
    agg = {
        "runs": 0, "digests": set(), "nontrivial": set(), "interleavings": set(), "abstract": set(),
        "steps": 0, "switches": 0, "sim_seconds": 0.0, "probes": {}, "faults": {}, "ends": {},
        "samples": [], "known_hits": {}, "cells": {},
    }
    for st in results:
        agg["runs"] += st["runs"]
        agg["evals"] = agg.get("evals", 0) + st.get("evals", st["runs"])
        for k in ("digests", "nontrivial", "interleavings", "abstract"):
            agg[k].update(st[k])
        for k in ("steps", "switches", "sim_seconds"):
            agg[k] += st[k]
        for k in ("probes", "faults", "ends", "known_hits", "cells"):
            for kk, vv in st[k].items():
                agg[k][kk] = agg[k].get(kk, 0) + vv
        agg["samples"].extend(st["samples"])
        harness_errors.extend(st["harness_errors"])
        violations_out.extend(st["violations"])
        agg["inconclusive"] = agg.get("inconclusive", 0) + st.get("inconclusive", 0)
        if st.get("inconclusive_first") and not agg.get("inconclusive_first"):
            agg["inconclusive_first"] = st["inconclusive_first"]
    if agg.get("inconclusive"):
        print("note: %d of %d run(s) ended at their step bound and decide nothing (first: %s)" % (
            agg["inconclusive"], agg["runs"], agg.get("inconclusive_first")))
        if agg["inconclusive"] > max(5, 0.005 * agg["runs"]):
            harness_errors.append("too many runs ended at their step bound: %d of %d" % (agg["inconclusive"], agg["runs"]))
    if harness_errors:
        print("HARNESS-ERROR %d run(s) failed inside the harness; first:\n%s" % (
            len(harness_errors), harness_errors[0]))
        return 2

    # 4. shrink + report new violations (one per signature)
    by_sig = {}
    for v in violations_out:
        by_sig.setdefault(v["sig"], v)
    reported = []
    if by_sig:
        sb = 30 if tier == "quick" else 180
        todo = list(by_sig.values())[:6]
        with cf.ProcessPoolExecutor(max_workers=min(len(todo), nprocs), mp_context=ctx) as ex:
            futs = [ex.submit(_shrink_job, prop, tier, v, sb) for v in todo]
            for f in futs:
                try:
                    reported.append(f.result(timeout=sb + RUN_WATCHDOG + 60))
                except Exception as e:
                    print("HARNESS-ERROR shrinking failed: %r" % (e,))
                    return 2
        for r in reported:
            name = "%s-%d-%s%s.json" % (prop, verif_seed, hashlib.sha256(r["sig"].encode()).hexdigest()[:10],
                                        "-O" if sys.flags.optimize else "")
            path = os.path.join(REPLAYS, name)
            clause = r["sig"].split("/")[1]
            with open(path, "w") as f:
                json.dump({
                    "property": prop, "clause": clause, "signature": r["sig"], "message": r["msg"],
                    "verif_seed": verif_seed, "run_index": r["orig_run_index"], "tier": tier,
                    "tapes": r["tapes"], "scenario": r["scenario"], "expected_digest": r["digest"],
                    "shrink_tries": r["tries"], "summary": r["sample"],
                    # python -O strips assert statements from the code under test: part of the run's identity
                    "python_optimize": int(sys.flags.optimize),
                }, f, indent=1, default=str)
            if not r["reproduced"]:
                print("HARNESS-ERROR violation %s did not reproduce from its own tapes "
                      "(nondeterminism)" % r["sig"])
                return 2
            print("violation: %s\n    %s" % (r["sig"], r["msg"]))
            print("VIOLATION property=%s replay=%s" % (prop, path))
            rc = 1

    for ln in known_lines:
        print(ln)

    wall = time.time() - t_start
    # 5. evidence
    if not args.no_evidence:
        meta = getattr(mod, "EVIDENCE", {})
        ev = {
            "property_id": prop, "tier": tier, "seed": verif_seed,
            "level": getattr(mod, "LEVEL", "exploration"),
            "wall_s": round(wall, 2),
            "violations": len(reported),
            "coverage": {
                "evaluations": agg.get("evals", agg["runs"]),
                "scenarios": agg["runs"],
                "distinct_nontrivial": len(agg["nontrivial"]),
                "distinct_histories": len(agg["digests"]),
                "rule": meta.get("rule", ""),
                "samples": agg["samples"][:5] or [{"note": "no sample collected"}],
                "runs_per_hour": int(agg.get("evals", agg["runs"]) / max(wall, 1e-9) * 3600),
                "exploration_wall_s": budget,
                "worker_processes": nprocs,
                "simulated_seconds_covered": round(agg["sim_seconds"], 3),
                "scheduler_steps": agg["steps"],
                "context_switches": agg["switches"],
                "distinct_interleavings": len(agg["interleavings"]),
                "abstract_states": len(agg["abstract"]),
                "faults_fired": dict(sorted(agg["faults"].items())),
                "probes": dict(sorted(agg["probes"].items())),
                "table_cells_hit": dict(sorted(agg["cells"].items())) if len(agg["cells"]) <= 400 else {"cells": len(agg["cells"])},
                "run_end_reasons": agg["ends"],
                "known_findings_replayed": known_report,
                "known_signature_hits_during_exploration": agg["known_hits"],
                "selftest": st_info,
                "real_components": meta.get("real", []),
                "stubbed_components": meta.get("stub", []),
                "exhaustive": False,
            },
            "assumptions": meta.get("assumptions", []),
        }
        with open(os.path.join(EVIDENCE, "%s.json" % prop), "w") as f:
            json.dump(ev, f, indent=1, default=str)
    print("%s %s: %d runs in %.1fs (%d distinct, %d non-trivial), %d new violation signature(s), %d known finding(s)" % (
        prop, tier, agg["runs"], wall, len(agg["digests"]), len(agg["nontrivial"]), len(reported), len(known_lines)))
    return rc
