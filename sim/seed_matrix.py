#!/venv/bin/python
"""run every kept seeded change against the check of the property it was written for (and the other checks
recorded as catching it) and write seeded/MATRIX.json.   usage: sim/seed_matrix.py [--budget 20] [--only S01,S02]"""
import argparse, glob, json, os, subprocess, sys, time
HERE = os.path.dirname(os.path.dirname(os.path.abspath(__file__)))
ap = argparse.ArgumentParser(); ap.add_argument("--budget", type=float, default=20, help="seconds per check; 0 = the check's own quick budget"); ap.add_argument("--only", default="")
ap.add_argument("--own-only", action="store_true")
ap.add_argument("--seed", default="0", help="VERIF_SEED for the runs")
ap.add_argument("--out", default="MATRIX.json", help="file name under seeded/")
ap.add_argument("--worktree", default="/repo", help="scratch worktree of /repo at HEAD to apply the changes in (VERIF_REPO); /repo itself stays untouched")
a = ap.parse_args()
REPO = os.path.realpath(a.worktree)
ENV = dict(os.environ, VERIF_REPO=REPO, VERIF_SEED=a.seed, VERIF_NO_OPTIMIZED_PASS="")
only = set(x for x in a.only.split(",") if x)
out = {}
mp = os.path.join(HERE, "seeded", a.out)
if only and os.path.exists(mp):
    out = json.load(open(mp))
st = subprocess.run(["git", "-C", REPO, "status", "--porcelain"], capture_output=True, text=True).stdout.strip()
if st:
    sys.exit("refusing: %s not clean" % REPO)
for d in sorted(glob.glob(os.path.join(HERE, "seeded", "S*"))):
    sid = os.path.basename(d)
    if only and sid not in only:
        continue
    meta = json.load(open(os.path.join(d, "meta.json")))
    props = [meta["breaks_property"]] + ([] if a.own_only else [p for p in meta.get("caught_by", []) if p != meta["breaks_property"]])
    r = subprocess.run(["git", "-C", REPO, "apply", os.path.join(d, "patch.diff")], capture_output=True, text=True)
    if r.returncode != 0 and os.path.exists(os.path.join(d, "patch.rebased.diff")):
        # the original patch was written against an older HEAD (a later fix touched the same lines)
        r = subprocess.run(["git", "-C", REPO, "apply", os.path.join(d, "patch.rebased.diff")], capture_output=True, text=True)
    if r.returncode != 0:
        out[sid] = {"error": "patch does not apply to HEAD: " + r.stderr.strip()[:200]}
        print(sid, "PATCH-DOES-NOT-APPLY", flush=True)
        continue
    res = {}
    try:
        for p in props:
            t = time.time()
            o = subprocess.run([os.path.join(HERE, "check"), p, "--tier", "quick", "--no-selftest", "--no-evidence"] + (["--budget", str(a.budget)] if a.budget > 0 else []),
                               capture_output=True, text=True, timeout=3600, env=ENV)
            sigs = [l.split(": ", 1)[1] for l in o.stdout.splitlines() if l.startswith("violation:")]
            res[p] = {"verdict": {0: "missed", 1: "caught"}.get(o.returncode, "harness-error"), "signatures": sigs[:6], "wall_s": round(time.time() - t, 1)}
    finally:
        subprocess.run(["git", "-C", REPO, "checkout", "--", "."], check=True)
    out[sid] = {"property": meta["breaks_property"], "name": meta["name"], "results": res}
    print(sid, meta["breaks_property"], meta["name"], {p: v["verdict"] for p, v in res.items()}, flush=True)
    json.dump(out, open(mp, "w"), indent=1)
own_missed = [s for s, v in out.items() if "results" in v and v["results"].get(v["property"], {}).get("verdict") != "caught"]
any_missed = [s for s, v in out.items() if "results" in v and not any(x["verdict"] == "caught" for x in v["results"].values())]
print("own-property check did not catch:", own_missed)
print("caught by no check:", any_missed)
