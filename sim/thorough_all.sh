#!/bin/sh
# runs every claimed check's thorough command on the current tree; prints one line per check
cd "$(dirname "$0")/.."
for p in C04 C13 C09 C05 C12 C11 C19 C14 C18 C01 C02 C03 C06 C07 C08 C15 C16 C17; do
  t0=$(date +%s)
  VERIF_SEED=${VERIF_SEED:-0} ./check $p --tier thorough --no-evidence > thorough_$p.log 2>&1; rc=$?
  echo "$p rc=$rc $(( $(date +%s) - t0 ))s $(tail -1 thorough_$p.log | cut -c1-160)"
  if [ $rc -ne 0 ]; then grep -E "^violation|^    |HARNESS" thorough_$p.log | cut -c1-400 | head -12; fi
done
