"""Builds a real waitress server on the simulated substrate and runs one scenario."""
import gc
import logging
import socket as _socket
import sys
import tempfile as _tempfile

from . import kernel as _kernel
from .kernel import Kernel
from .shims import (FakeSocket, NetConfig, OSShim, RecordingDict, SelectShim,
                    ThreadingShim, TimeShim)

import waitress
import waitress.adjustments
import waitress.buffers
import waitress.channel
import waitress.server
import waitress.task
import waitress.trigger
import waitress.wasyncore
import waitress.parser
import waitress.receiver
import waitress.utilities
import waitress.proxy_headers
import collections

TRACE_FILES = tuple(
    m.__file__ for m in (waitress.channel, waitress.task, waitress.server,
                         waitress.wasyncore, waitress.trigger, waitress.buffers)
)
TRACE_FILES_TASK = (waitress.task.__file__,)

_generation = [0]
_adj_cache = {}


def make_adj(knobs):
    key = tuple(sorted((k, repr(v)) for k, v in knobs.items()))
    adj = _adj_cache.get(key)
    if adj is None:
        adj = waitress.adjustments.Adjustments(**knobs)
        if len(_adj_cache) > 5000:
            _adj_cache.clear()
        _adj_cache[key] = adj
    return adj


class SimChannel(waitress.channel.HTTPChannel):
    """the real channel; only remembers which simulated connection it serves."""

    def __init__(self, server, sock, addr, adj, map=None):
        self.sim_cid = getattr(sock, "cid", None)
        sim = getattr(server, "sim_ref", None)
        if sim is not None:
            sim.chan_by_cid[self.sim_cid] = self
        waitress.channel.HTTPChannel.__init__(self, server, sock, addr, adj, map=map)


class _RecordingQueue(collections.deque):
    def __init__(self, k):
        collections.deque.__init__(self)
        self._k = k

    def popleft(self):
        t = collections.deque.popleft(self)
        self._k.log("task_pop", getattr(t, "sim_cid", None))
        return t


class LogCapture(logging.Handler):
    def __init__(self, k):
        logging.Handler.__init__(self, level=logging.DEBUG)
        self.k = k
        self.records = []  # (seq, level, message, exc_text, thread)

    def createLock(self):
        self.lock = None

    def handle(self, record):
        self.emit(record)

    def emit(self, record):
        k = self.k
        cur = k.current
        if cur is not None:
            cur.no_preempt += 1
        try:
            try:
                msg = record.getMessage()
            except Exception as e:  # noqa
                msg = "<unformattable %r>" % (record.msg,)
            exc = ""
            if record.exc_info and record.exc_info[0] is not None:
                et = record.exc_info[0]
                if issubclass(et, _kernel.SimAbort):
                    return
                import traceback
                exc = "".join(traceback.format_exception(*record.exc_info))
            self.records.append((k.seq, record.levelname, msg, exc, cur.name if cur else "-"))
        finally:
            if cur is not None:
                cur.no_preempt -= 1


class TempTracker:
    def __init__(self):
        self.files = []

    def __call__(self, *a, **kw):
        f = self.real(*a, **kw)
        self.files.append(f)
        return f


class Client:
    """scripted client of one simulated connection.

    steps: list of tuples
      ("send", bytes) ("sleep", dt) ("wait", cond, timeout) ("fin",) ("rst",)
      ("mode", "eager"|"stalled"|"slow", nbytes, interval) ("drain", n) ("mark",)
    cond: ("bytes", n) | ("contains", pattern) | ("closed",) | ("consumed",) | ("quiet",)
    """

    def __init__(self, sim, cid, steps, addr=None, start=0.0, listener=0):
        self.sim = sim
        self.k = sim.k
        self.cid = cid
        self.steps = list(steps)
        self.pc = 0
        self.addr = addr if addr is not None else ("127.0.0.1", 40000 + cid)
        self.start = start
        self.listener = listener
        self.sock = None
        self.waiting = None
        self.wake_pending = False
        self.done = False
        self.sent = 0
        self.timed_out_waits = 0
        self.slow = None
        self.drain_pending = False
        self.server_closed_seq = None
        self.step_log = []

    def schedule(self):
        self.k.at(self.k.now + self.start, self.connect, "connect")

    def connect(self):
        k = self.k
        lst = self.sim.listeners[self.listener]
        s = FakeSocket(k, self.sim.net, cid=self.cid, addr=self.addr)
        s.client = self
        if self.sim.conn_faults.get(self.cid):
            s.faults.update(self.sim.conn_faults[self.cid])
        self.sock = s
        self.sim.conns[self.cid] = s
        k.log("connect", self.cid)
        if lst.closed:
            k.log("connect_refused", self.cid)
            self.refused = True
            self.done = True
            return
        lst.backlog.append(s)
        self.advance()

    refused = False

    def _cond(self, cond):
        s = self.sock
        kind = cond[0]
        if kind == "bytes":
            return len(s.wire) >= cond[1]
        if kind == "contains":
            return s.wire.find(cond[1], cond[2] if len(cond) > 2 else 0) >= 0
        if kind == "closed":
            return s.closed
        if kind == "consumed":
            return not s.inq
        if kind == "accepted":
            return s.accepted_seq is not None
        if kind == "fn":
            return cond[1](self)
        raise ValueError(cond)

    def advance(self):
        k = self.k
        self.wake_pending = False
        s = self.sock
        while self.pc < len(self.steps):
            st = self.steps[self.pc]
            op = st[0]
            if op == "send":
                data = st[1]
                if s.closed or s.rst or s.in_fin:
                    k.log("c_send_dropped", self.cid, len(data))
                else:
                    s.inq += data
                    self.sent += len(data)
                    k.log("c_send", self.cid, len(data), self.sent)
                self.pc += 1
            elif op == "sleep":
                self.pc += 1
                k.after(st[1], self.advance, "client")
                return
            elif op == "wait":
                if self.waiting is None:
                    if self._cond(st[1]):
                        self.pc += 1
                        continue
                    self.waiting = (self.pc, st[1])
                    if len(st) > 2 and st[2] is not None:
                        pc = self.pc
                        k.after(st[2], lambda pc=pc: self._timeout(pc), "client-timeout")
                    return
                else:
                    if self._cond(st[1]):
                        self.waiting = None
                        self.pc += 1
                        continue
                    return
            elif op == "fin":
                s.in_fin = True
                k.log("c_fin", self.cid)
                self.pc += 1
            elif op == "rst":
                s.rst = True
                s.inq.clear()
                k.log("c_rst", self.cid)
                self.pc += 1
            elif op == "oob":
                s.oob = True
                k.log("c_oob", self.cid)
                self.pc += 1
            elif op == "mode":
                self._set_mode(st)
                self.pc += 1
            elif op == "drain":
                s.unread = max(0, s.unread - st[1])
                self.pc += 1
            elif op == "mark":
                s.mark = k.seq
                self.pc += 1
            elif op == "call":
                st[1](self)
                self.pc += 1
            else:
                raise ValueError(st)
        self.done = True

    def _set_mode(self, st):
        s = self.sock
        mode = st[1]
        if mode == "eager":
            s.eager = True
            s.unread = 0
            self.slow = None
        elif mode == "stalled":
            s.eager = False
            self.slow = None
        elif mode == "slow":
            s.eager = False
            self.slow = (st[2], st[3])
            self._kick_drain()
        self.k.log("c_mode", self.cid, mode)

    def _kick_drain(self):
        if self.slow and not self.drain_pending and self.sock.unread > 0:
            self.drain_pending = True
            self.k.after(self.slow[1], self._drain, "drain")

    def _drain(self):
        self.drain_pending = False
        if not self.slow:
            return
        s = self.sock
        s.unread = max(0, s.unread - self.slow[0])
        self._kick_drain()

    def _timeout(self, pc):
        if self.waiting is not None and self.waiting[0] == pc and self.pc == pc:
            self.timed_out_waits += 1
            self.k.log("c_wait_timeout", self.cid, pc)
            self.waiting = None
            self.pc += 1
            self.advance()

    def _poke(self):
        if self.waiting is not None and not self.wake_pending:
            if self._cond(self.waiting[1]):
                self.wake_pending = True
                self.k.after(0.0, self.advance, "client-wake")

    def on_wire(self):
        self._kick_drain()
        self._poke()

    def on_server_close(self):
        self.server_closed_seq = self.k.seq
        self._poke()

    def on_server_recv(self):
        self._poke()


class Simulation:
    def __init__(self, tapes, knobs=None, net=None, sched=None, infinite_poll=False,
                 n_listeners=1, unix=False, trace="none", horizon=3600.0,
                 stop_at_idle=True, step_cap=200000, threads=None):
        self.tapes = tapes
        self.knobs = dict(knobs or {})
        if threads is not None:
            self.knobs["threads"] = threads
        self.net = net or NetConfig()
        _generation[0] += 1
        trace_files = {"none": (), "all": TRACE_FILES, "task": TRACE_FILES_TASK}[trace]
        self.k = Kernel(tapes, sched=sched, step_cap=step_cap, horizon=horizon,
                        stop_at_idle=stop_at_idle, trace_files=trace_files,
                        generation=_generation[0])
        self.infinite_poll = infinite_poll
        self.n_listeners = n_listeners
        self.unix = unix
        self.conns = {}
        self.clients = []
        self.listeners = []
        self.servers = []
        self.conn_faults = {}
        self.chan_by_cid = {}
        self.before_teardown = None
        self.app = None
        self.logcap = None
        self.map = None
        self.dispatcher = None
        self.temps = TempTracker()
        self._patched = []
        self.built = False
        self.io_thread = None

    # -- patching
    def _patch(self, mod, name, value):
        self._patched.append((mod, name, getattr(mod, name)))
        setattr(mod, name, value)

    def _unpatch(self):
        for mod, name, old in reversed(self._patched):
            setattr(mod, name, old)
        self._patched = []

    def build(self, app):
        k = self.k
        self.app = app
        th = ThreadingShim(k)
        tm = TimeShim(k)
        osh = OSShim(k)
        self.select = SelectShim(k, infinite=self.infinite_poll)
        self.timeshim = tm
        for mod in (waitress.channel, waitress.task, waitress.trigger):
            self._patch(mod, "threading", th)
        for mod in (waitress.channel, waitress.task, waitress.server, waitress.wasyncore):
            self._patch(mod, "time", tm)
        self._patch(waitress.wasyncore, "select", self.select)
        self._patch(waitress.wasyncore, "os", osh)
        self._patch(waitress.trigger, "os", osh)
        self.temps.real = _tempfile.TemporaryFile
        self._patch(_tempfile, "TemporaryFile", self.temps)
        # logging
        self.logcap = LogCapture(k)
        lg = logging.getLogger("waitress")
        self._old_log = (lg.handlers[:], lg.propagate, lg.level)
        lg.handlers[:] = [self.logcap]
        lg.propagate = False
        lg.setLevel(logging.INFO)

        adj = make_adj(self.knobs)
        self.adj = adj
        self.map = RecordingDict(k)
        self.dispatcher = waitress.task.ThreadedTaskDispatcher()
        # observe hand-outs: which worker took the task of which connection, and when (the real deque, recorded)
        self.dispatcher.queue = _RecordingQueue(self.k)
        self.dispatcher.set_thread_count(adj.threads)
        for i in range(self.n_listeners):
            if self.unix:
                lst = FakeSocket(k, self.net, listening=True, sockname="/tmp/sim.sock")
                lst.family = _socket.AF_UNIX
                lst.fd = k.alloc_fd(lst)
                srv = waitress.server.UnixWSGIServer(
                    app, map=self.map, _sock=lst, dispatcher=self.dispatcher, adj=adj,
                    sockinfo=(_socket.AF_UNIX, _socket.SOCK_STREAM, None, None),
                    bind_socket=False)
            else:
                lst = FakeSocket(k, self.net, listening=True, sockname=("127.0.0.1", 8080 + i))
                lst.fd = k.alloc_fd(lst)
                srv = waitress.server.TcpWSGIServer(
                    app, map=self.map, _sock=lst, dispatcher=self.dispatcher, adj=adj,
                    sockinfo=(_socket.AF_INET, _socket.SOCK_STREAM, 0, ("127.0.0.1", 8080 + i)),
                    bind_socket=False)
            srv.channel_class = SimChannel
            srv.sim_ref = self
            self.listeners.append(lst)
            self.servers.append(srv)
        self.server = self.servers[0]
        if self.n_listeners == 1:
            target = self.server.run
        else:
            ms = waitress.server.MultiSocketServer(self.map, adj, [], self.dispatcher, None)
            self.multi = ms
            target = ms.run
        self.io_thread = k.spawn("io", target, kind="io")
        self.built = True

    def add_client(self, steps, cid=None, addr=None, start=0.0, listener=0):
        if cid is None:
            cid = len(self.clients)
        c = Client(self, cid, steps, addr=addr, start=start, listener=listener)
        self.clients.append(c)
        c.schedule()
        return c

    def add_fault(self, cid, op, call_index, err):
        self.conn_faults.setdefault(cid, {})[(op, call_index)] = err
        if cid in self.conns:
            self.conns[cid].faults[(op, call_index)] = err

    def channels(self):
        out = []
        for v in list(self.map.values()):
            if isinstance(v, waitress.channel.HTTPChannel):
                out.append(v)
        return out

    def run(self):
        k = self.k
        try:
            reason = k.run()
            if self.before_teardown is not None:
                self.before_teardown(self)
        finally:
            self._teardown()
        return reason

    def _teardown(self):
        k = self.k
        # snapshot a few facts before destroying things
        self.final_map_fds = sorted(k.fdn(fd) for fd in self.map.keys())
        self.final_open_fds = sorted(k.fdn(fd) for fd in k.fds.keys())
        self.final_threads = k.final_threads
        self.temp_unclosed = sum(1 for f in self.temps.files if not f.closed)
        chans = []
        for srv in self.servers:
            chans.extend(list(srv.active_channels.values()))
        chans.extend(self.channels())
        for ch in chans:
            try:
                for b in ch.outbufs:
                    try:
                        b.close()
                    except Exception:
                        pass
                for r in list(ch.requests):
                    try:
                        r.close()
                    except Exception:
                        pass
                if ch.request is not None:
                    try:
                        ch.request.close()
                    except Exception:
                        pass
            except Exception:
                pass
        for f in self.temps.files:
            try:
                f.close()
            except Exception:
                pass
        for srv in self.servers:
            tr = getattr(srv, "trigger", None)
            if tr is not None and getattr(tr, "socket", None) is not None:
                try:
                    tr.socket.fd = -1
                except Exception:
                    pass
        dict.clear(self.map)
        k.fds.clear()
        lg = logging.getLogger("waitress")
        lg.handlers[:] = self._old_log[0]
        lg.propagate = self._old_log[1]
        lg.setLevel(self._old_log[2])
        self._unpatch()
        for srv in self.servers:
            srv.sim_ref = None
        self.servers = []
        self.server = None
        self.dispatcher = None
        self.chan_by_cid = {}
        k.on_idle = None
        k.on_finish = None
        k.on_all_blocked = None
        k.on_step = None
        k.events = []
        for c in self.clients:
            c.sim = None
        gc.collect()
