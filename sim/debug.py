#!/venv/bin/python
"""debug helper: run one index (or a replay file) of a property and dump what happened.
usage: sim/debug.py C04 <run_index> [--tier quick] [--hist N] [--replay file]"""
import os, sys, json
if os.environ.get("PYTHONHASHSEED") is None:
    os.environ["PYTHONHASHSEED"] = "0"
    os.execv(sys.executable, [sys.executable] + sys.argv)
HERE = os.path.dirname(os.path.dirname(os.path.abspath(__file__)))
sys.path[:] = [p for p in sys.path if os.path.abspath(p or ".") != os.path.join(HERE, "sim")]
sys.path.insert(0, HERE); sys.path.insert(0, os.path.join(os.environ.get("VERIF_REPO", "/repo"), "src"))
sys.dont_write_bytecode = True
import argparse
from sim import runner, harness
ap = argparse.ArgumentParser()
ap.add_argument("prop"); ap.add_argument("index", type=int, nargs="?", default=0)
ap.add_argument("--tier", default="quick"); ap.add_argument("--hist", type=int, default=80)
ap.add_argument("--replay"); ap.add_argument("--logs", action="store_true")
a = ap.parse_args()
mod = runner.load_prop(a.prop)
captured = {}
orig = harness.Simulation._teardown
def td(self):
    captured["sim"] = self
    captured["hist"] = list(self.k.history)
    captured["logs"] = list(self.logcap.records) if self.logcap else []
    captured["threads"] = self.k.final_threads
    orig(self)
harness.Simulation._teardown = td
seed = int(os.environ.get("VERIF_SEED", "0"))
if a.replay:
    rp = json.load(open(a.replay))
    res, rec = runner.run_once(mod, a.tier, 0, 0, replay=rp["tapes"], scenario=rp.get("scenario"))
else:
    res, rec = runner.run_once(mod, a.tier, seed, a.index)
print("digest", res.digest, "harness_error", res.harness_error)
print("sample", json.dumps(res.sample, default=str)[:3000])
print("stats", res.stats)
print("threads", captured.get("threads"))
for v in res.violations:
    print("VIOL", v.sig(mod.PROPERTY), "::", v.msg[:2000])
if a.logs:
    for r in captured.get("logs", []):
        print("LOG", r[0], r[1], r[4], r[2][:300]); 
        if r[3]: print(r[3][-1500:])
h = captured.get("hist", [])
print("history: %d events; last %d:" % (len(h), a.hist))
for ev in h[-a.hist:]:
    print("  ", ev)
print("tapes", {k: len(v) for k, v in rec.items()})
