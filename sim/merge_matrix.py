#!/venv/bin/python
"""merge the per-pass matrix files under seeded/ (MATRIX_*.json) into seeded/MATRIX.json: for every kept change the
verdict of each check in each pass (a change counts as caught by a check if some pass caught it; passes that missed
are listed, so that seed-dependent detections stay visible)"""
import glob, json, os
HERE = os.path.dirname(os.path.dirname(os.path.abspath(__file__)))
out = {}
for f in sorted(glob.glob(os.path.join(HERE, "seeded", "MATRIX_*.json"))):
    tag = os.path.basename(f)[7:-5]
    for sid, v in json.load(open(f)).items():
        if "results" not in v:
            continue
        e = out.setdefault(sid, {"property": v["property"], "name": v["name"], "passes": {}})
        e["passes"][tag] = {p: r["verdict"] for p, r in v["results"].items()}
for sid in sorted(os.listdir(os.path.join(HERE, "seeded"))):
    mp = os.path.join(HERE, "seeded", sid, "meta.json")
    if os.path.exists(mp) and sid not in out:
        m = json.load(open(mp))
        out[sid] = {"property": m["breaks_property"], "name": m["name"], "passes": {}}
    if os.path.exists(mp):
        m = json.load(open(mp))
        out[sid]["at_keep_time"] = {"caught_by": m.get("caught_by", []), "missed_by": m.get("missed_by", [])}
json.dump(out, open(os.path.join(HERE, "seeded", "MATRIX.json"), "w"), indent=1, sort_keys=True)
never = [s for s, v in out.items() if not v["at_keep_time"]["caught_by"] and not any("caught" in p.values() for p in v["passes"].values())]
own_missed_somewhere = sorted(s for s, v in out.items() for t, p in v["passes"].items() if p.get(v["property"]) == "missed")
print("changes:", len(out), "caught by no check:", never)
print("own check missed in some pass:", own_missed_somewhere)
