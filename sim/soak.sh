#!/bin/sh
# usage: sim/soak.sh "<seeds>" [tier]   - runs every claimed check under each seed on the CURRENT tree, reports non-zero exits
cd "$(dirname "$0")/.."
TIER=${2:-quick}
for seed in $1; do
  for p in C01 C02 C03 C04 C05 C06 C07 C08 C09 C11 C12 C13 C14 C15 C16 C17 C18 C19; do
    VERIF_SEED=$seed ./check $p --tier $TIER --no-evidence > /tmp/soak_${p}_$seed.log 2>&1; rc=$?
    echo "seed=$seed $p rc=$rc $(tail -1 /tmp/soak_${p}_$seed.log | cut -c1-140)"
    if [ $rc -ne 0 ]; then grep -E "^violation|^    |HARNESS" /tmp/soak_${p}_$seed.log | cut -c1-300 | head -8; fi
  done
done
