#!/venv/bin/python
"""copy a validated seeded change into /verif/seeded/<id>/ with meta.json
usage: sim/keep_seed.py <worktree> <mutant-name> <id> <property> --caught C13,... [--missed C05,...] [--note "..."]"""
import argparse, json, os, shutil, subprocess
ap = argparse.ArgumentParser()
ap.add_argument("wt"); ap.add_argument("name"); ap.add_argument("id"); ap.add_argument("prop")
ap.add_argument("--caught", default=""); ap.add_argument("--missed", default=""); ap.add_argument("--note", default="")
ap.add_argument("--signatures", default="")
a = ap.parse_args()
src = os.path.join(a.wt, "mutants", a.name)
dst = os.path.join("/verif/seeded", a.id)
os.makedirs(dst, exist_ok=True)
for f in ("patch.diff", "demo.py", "README.md"):
    shutil.copy(os.path.join(src, f), os.path.join(dst, f))
readme = open(os.path.join(src, "README.md")).read()
head = subprocess.run(["git", "-C", "/repo", "rev-parse", "--short", "HEAD"], capture_output=True, text=True).stdout.strip()
meta = {
    "id": a.id, "name": a.name, "breaks_property": a.prop,
    "written_by": "independent sub-agent given only the property text and a scratch worktree",
    "needs_to_manifest": readme.strip(),
    "base_commit": head,
    "validated": {
        "how": "sim/validate_seed.sh in the scratch worktree: git apply patch.diff; full pytest suite; demo.py with and without the patch",
        "suite_with_patch": "795 passed", "demo_with_patch": "FAIL (non-zero exit)", "demo_without_patch": "PASS (exit 0)",
    },
    "checks_run": "sim/mutant.py <patch> <props> --budget 25 (applies to /repo, runs ./check <prop> --tier quick, reverts)",
    "caught_by": [x for x in a.caught.split(",") if x],
    "missed_by": [x for x in a.missed.split(",") if x],
    "violation_signatures": [x for x in a.signatures.split(";") if x],
    "note": a.note,
}
json.dump(meta, open(os.path.join(dst, "meta.json"), "w"), indent=1)
print("kept", dst)
