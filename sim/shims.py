"""Shims that replace the module attributes through which waitress reaches
nondeterminism: threading, time, select, os (pipe), and the socket objects.
Every operation is a yield point of the kernel."""
import errno
import os as _os
import select as _select
import socket as _socket
import threading as _threading
import time as _time

from .kernel import SELECT_COST, HarnessError, SimAbort

EWOULDBLOCK = errno.EWOULDBLOCK


# ---------------------------------------------------------------- threading
class SimLock:
    def __init__(self, k, name="lock"):
        self.k = k
        self.owner = None
        self.name = name

    def acquire(self, blocking=True, timeout=-1):
        k = self.k
        k.yield_point("acquire:" + self.name)
        me = k.current or "driver"
        if self.owner is None:
            self.owner = me
            return True
        if not blocking:
            k.probe("trylock_failed:" + self.name)
            return False
        if self.owner is me:
            raise HarnessError("self-deadlock on non-reentrant lock %s" % self.name)
        k.probe("lock_contended:" + self.name)
        deadline = None if timeout is None or timeout < 0 else k.now + timeout
        ok = k.block_until(lambda: self.owner is None, deadline, "lock:" + self.name)
        if ok:
            self.owner = k.current
            return True
        return False

    def release(self):
        k = self.k
        if k.aborting:
            self.owner = None
            return
        if self.owner is None:
            raise RuntimeError("release unlocked lock")
        self.owner = None
        k.release_point(self.name)

    def locked(self):
        return self.owner is not None

    __enter__ = acquire

    def __exit__(self, *a):
        self.release()

    # condition support
    def _is_owned(self):
        return self.owner is not None and self.owner is (self.k.current or "driver")

    def _release_save(self):
        self.owner = None
        return 1

    def _acquire_restore(self, saved):
        k = self.k
        if self.owner is not None:
            k.block_until(lambda: self.owner is None, None, "relock:" + self.name)
        self.owner = k.current or "driver"


class SimRLock(SimLock):
    def __init__(self, k, name="rlock"):
        SimLock.__init__(self, k, name)
        self.count = 0

    def acquire(self, blocking=True, timeout=-1):
        k = self.k
        k.yield_point("acquire:" + self.name)
        me = k.current or "driver"
        if self.owner is me:
            self.count += 1
            return True
        if self.owner is None:
            self.owner = me
            self.count = 1
            return True
        if not blocking:
            k.probe("trylock_failed:" + self.name)
            return False
        k.probe("lock_contended:" + self.name)
        deadline = None if timeout is None or timeout < 0 else k.now + timeout
        ok = k.block_until(lambda: self.owner is None, deadline, "lock:" + self.name)
        if ok:
            self.owner = k.current
            self.count = 1
            return True
        return False

    def release(self):
        k = self.k
        if k.aborting:
            self.owner = None
            self.count = 0
            return
        if self.owner is not (k.current or "driver"):
            raise RuntimeError("cannot release un-acquired lock")
        self.count -= 1
        if self.count == 0:
            self.owner = None
            k.release_point(self.name)
        else:
            k.yield_point("release:" + self.name)

    __enter__ = acquire

    def _release_save(self):
        c = self.count
        self.count = 0
        self.owner = None
        return c

    def _acquire_restore(self, saved):
        k = self.k
        if self.owner is not None:
            k.block_until(lambda: self.owner is None, None, "relock:" + self.name)
        self.owner = k.current or "driver"
        self.count = saved


class SimCondition:
    def __init__(self, k, lock=None, name="cond"):
        self.k = k
        self.name = name
        self.lock = lock if lock is not None else SimRLock(k, name)
        self.waiters = []
        self.acquire = self.lock.acquire
        self.release = self.lock.release

    def __enter__(self):
        return self.lock.acquire()

    def __exit__(self, *a):
        self.lock.release()

    def wait(self, timeout=None):
        k = self.k
        if k.aborting:
            raise SimAbort()
        if not self.lock._is_owned():
            raise RuntimeError("cannot wait on un-acquired lock")
        if k.current is None:
            raise HarnessError("cv.wait on the driver thread")
        w = [False, k.current.name]
        self.waiters.append(w)
        saved = self.lock._release_save()
        deadline = None if timeout is None else k.now + timeout
        k.probe("cv_wait:" + self.name)
        try:
            k.block_until(lambda: w[0], deadline, "cv.wait:" + self.name)
        finally:
            if not w[0]:
                try:
                    self.waiters.remove(w)
                except ValueError:
                    pass
        self.lock._acquire_restore(saved)
        return w[0]

    def notify(self, n=1):
        k = self.k
        if k.aborting:
            return
        if not self.lock._is_owned():
            raise RuntimeError("cannot notify on un-acquired lock")
        for _ in range(n):
            if not self.waiters:
                break
            if k.sched_kind == "walk" and len(self.waiters) > 1:
                i = k.S.draw(len(self.waiters))
            else:
                i = 0
            w = self.waiters.pop(i)
            w[0] = True
            k.probe("cv_notify_hit:" + self.name)
        k.yield_point("notify:" + self.name)

    def notify_all(self):
        self.notify(len(self.waiters) or 1)

    notifyAll = notify_all


class SimThreadHandle:
    def __init__(self, k, group=None, target=None, name=None, args=(), kwargs=None, daemon=None):
        self.k = k
        self.target = target
        self.name = name or "thread"
        self.args = args
        self.daemon = daemon
        self._t = None

    def start(self):
        name = self.name
        if name.startswith("waitress-"):
            name = "w" + name[len("waitress-"):]
        # unique names
        existing = {t.name for t in self.k.threads}
        base, i = name, 1
        while name in existing:
            i += 1
            name = "%s.%d" % (base, i)
        self._t = self.k.spawn(name, self.target, self.args, kind="worker")

    def is_alive(self):
        return self._t is not None and self._t.alive

    def join(self, timeout=None):
        k = self.k
        deadline = None if timeout is None else k.now + timeout
        k.block_until(lambda: not self._t.alive, deadline, "join")


class ThreadingShim:
    def __init__(self, k):
        self._k = k

    def Lock(self):
        return SimLock(self._k, self._name("lock"))

    def RLock(self):
        return SimRLock(self._k, self._name("rlock"))

    def Condition(self, lock=None):
        return SimCondition(self._k, lock, self._name("cond"))

    def Thread(self, *a, **kw):
        return SimThreadHandle(self._k, *a, **kw)

    def _name(self, kind):
        # name a primitive after the attribute it is about to be bound to:
        # look at the caller's source line (deterministic, no addresses)
        import sys
        f = sys._getframe(2)
        return "%s:%d" % (_os.path.basename(f.f_code.co_filename)[:-3], f.f_lineno)

    def __getattr__(self, name):
        return getattr(_threading, name)


# --------------------------------------------------------------------- time
class TimeShim:
    def __init__(self, k):
        self._k = k

    def time(self):
        k = self._k
        k.yield_point("time")
        return k.now

    def monotonic(self):
        # a clock of its own with another origin, as on a real machine (seconds since boot, not since 1970):
        # code that compares a monotonic reading with a time.time() stamp must not look right in the simulator
        k = self._k
        k.yield_point("time")
        return 5000.0 + (k.now - k.t0)

    def sleep(self, dt):
        k = self._k
        if k.current is None:
            return
        k.block_until(None, k.now + max(dt, 0), "sleep")

    def __getattr__(self, name):
        return getattr(_time, name)


# ------------------------------------------------------------------ sockets
class NetConfig:
    """per-run network behaviour knobs (drawn from the W tape by the scenario)"""

    def __init__(self, sendbuf_len=8192, sndbuf_cap=65536, p_short_read=0.0,
                 p_partial_send=0.0, p_zero_send=0.0):
        self.sendbuf_len = sendbuf_len
        self.sndbuf_cap = sndbuf_cap
        self.p_short_read = p_short_read
        self.p_partial_send = p_partial_send
        self.p_zero_send = p_zero_send


class FakeSocket:
    """server-side end of a simulated connection (or a listening socket)."""

    family = _socket.AF_INET
    type = _socket.SOCK_STREAM
    proto = 0

    def __init__(self, k, net, listening=False, cid=None, addr=None, sockname=("127.0.0.1", 8080)):
        self.k = k
        self.net = net
        self.listening = listening
        self.cid = cid
        self.addr = addr
        self.sockname = sockname
        self.fd = None
        self.closed = False
        self.nonblocking = False
        # listening
        self.backlog = []
        # connected: client -> server
        self.inq = bytearray()
        self.in_fin = False
        self.rst = False
        self.oob = False  # an unread urgent byte: the descriptor is in select's exceptional set / POLLPRI
        self.recv_total = 0
        # server -> client
        self.wire = bytearray()
        self.send_log = []  # (seq, thread, offset, nbytes)
        self.unread = 0
        self.eager = True
        self.sndbuf_cap = net.sndbuf_cap
        # accounting
        self.calls = {}
        self.faults = {}  # (op, call_index) -> errno  |  (op, '*') -> errno
        self.close_log = []  # (seq, thread)
        self.client = None
        self.accepted_seq = None
        self.last_data_recv_seq = None
        self.recv_after_mark = 0
        self.mark = None

    # -- helpers
    def _enter(self, op):
        k = self.k
        k.yield_point("sock." + op)
        n = self.calls.get(op, 0)
        self.calls[op] = n + 1
        if self.closed:
            k.log("sock", self.cid, op, "EBADF-closed")
            raise OSError(errno.EBADF, "Bad file descriptor")
        f = self.faults.pop((op, n), None)
        if f == -1:
            # client reset taking effect at this call
            self.rst = True
            self.inq.clear()
            k.probe("fault:" + op + ":RST")
            k.log("fault", self.cid, op, n, "RST")
            k.progress += 1
            f = None
        elif f == -2:
            self.in_fin = True
            self.inq.clear()
            k.probe("fault:" + op + ":FIN")
            k.log("fault", self.cid, op, n, "FIN")
            k.progress += 1
            f = None
        elif f == -3:
            # the peer's FIN arrives now; this call itself succeeds
            self.in_fin = True
            k.probe("fault:" + op + ":FIN-arrives")
            k.log("fault", self.cid, op, n, "FIN-arrives")
            k.progress += 1
            f = None
        if f is not None:
            k.probe("fault:" + op + ":" + errno.errorcode.get(f, str(f)))
            k.log("fault", self.cid, op, n, errno.errorcode.get(f, str(f)))
            k.progress += 1
            if f == 0:
                return "EOF"
            raise OSError(f, _os.strerror(f))
        return None

    def fileno(self):
        return -1 if self.closed or self.fd is None else self.fd

    def setblocking(self, flag):
        self._enter("setblocking")
        self.nonblocking = not flag

    def getsockopt(self, level, opt, buflen=None):
        self._enter("getsockopt")
        if level == _socket.SOL_SOCKET and opt == _socket.SO_SNDBUF:
            return self.net.sendbuf_len
        if level == _socket.SOL_SOCKET and opt == _socket.SO_ERROR:
            return errno.ECONNRESET if self.rst else 0
        return 0

    def setsockopt(self, *a):
        self._enter("setsockopt")

    def getsockname(self):
        return self.sockname

    def getpeername(self):
        return self.addr

    def listen(self, n):
        self.listening = True

    def bind(self, addr):
        self.sockname = addr

    # -- listening
    def accept(self):
        k = self.k
        self._enter("accept")
        if not self.backlog:
            raise BlockingIOError(errno.EAGAIN, "Resource temporarily unavailable")
        conn = self.backlog.pop(0)
        conn.fd = k.alloc_fd(conn)
        conn.accepted_seq = k.log("accept", conn.cid, k.fdn(conn.fd))
        k.progress += 1
        return conn, conn.addr

    # -- connected
    def recv(self, n):
        k = self.k
        r = self._enter("recv")
        if r == "EOF":
            return b""
        if self.rst:
            k.log("sock", self.cid, "recv", "ECONNRESET")
            raise ConnectionResetError(errno.ECONNRESET, "Connection reset by peer")
        if self.inq:
            avail = min(n, len(self.inq))
            if avail > 1 and self.net.p_short_read:
                avail -= k.tapes.F.draw(avail, p0=1.0 - self.net.p_short_read)
                if avail < 1:
                    avail = 1
            data = bytes(self.inq[:avail])
            del self.inq[:avail]
            self.recv_total += avail
            self.last_data_recv_seq = k.log("recv", self.cid, avail)
            if self.mark is not None:
                self.recv_after_mark += 1
            k.progress += 1
            if self.client is not None:
                self.client.on_server_recv()
            return data
        if self.in_fin:
            k.log("recv", self.cid, 0)
            k.progress += 1
            return b""
        if not self.nonblocking:
            k.probe("blocking_recv")
            k.block_until(lambda: bool(self.inq) or self.in_fin or self.rst or self.closed, None, "sock.recv:blocking")
            if self.closed and not (self.inq or self.in_fin or self.rst):
                raise OSError(errno.EBADF, "Bad file descriptor")
            return self.recv(n)
        raise BlockingIOError(EWOULDBLOCK, "Resource temporarily unavailable")

    def send(self, data):
        k = self.k
        self._enter("send")
        if self.rst:
            k.log("sock", self.cid, "send", "EPIPE")
            raise BrokenPipeError(errno.EPIPE, "Broken pipe")
        free = self.sndbuf_cap - self.unread
        if free <= 0 and not self.nonblocking:
            # a socket left in blocking mode (accepted sockets start out blocking): the caller sleeps in send()
            # until the peer makes room or goes away
            k.probe("blocking_send")
            k.block_until(lambda: self.rst or self.closed or (self.sndbuf_cap - self.unread) > 0, None, "sock.send:blocking")
            if self.rst or self.closed:
                k.log("sock", self.cid, "send", "EPIPE")
                raise BrokenPipeError(errno.EPIPE, "Broken pipe")
            free = self.sndbuf_cap - self.unread
        if free <= 0:
            raise BlockingIOError(EWOULDBLOCK, "Resource temporarily unavailable")
        if self.nonblocking and self.net.p_zero_send and k.tapes.F.chance(self.net.p_zero_send):
            k.probe("zero_send")
            raise BlockingIOError(EWOULDBLOCK, "Resource temporarily unavailable")
        n = min(len(data), free)
        if n > 1 and self.net.p_partial_send:
            cut = k.tapes.F.draw(n, p0=1.0 - self.net.p_partial_send)
            if cut:
                k.probe("partial_send")
            n -= cut
        if n <= 0:
            return 0
        off = len(self.wire)
        self.wire += bytes(data[:n])
        seq = k.log("send", self.cid, off, n)
        self.send_log.append((seq, k.current.name if k.current else "-", off, n))
        if not self.eager:
            self.unread += n
        k.progress += 1
        if self.client is not None:
            self.client.on_wire()
        return n

    def close(self):
        k = self.k
        if k.current is None and (k.aborting or k.finished):
            self.closed = True
            return
        k.yield_point("sock.close")
        who = k.current.name if k.current else "-"
        seq = k.log("close", self.cid if not self.listening else "L", who)
        self.close_log.append((seq, who))
        if not self.closed:
            self.closed = True
            if self.fd is not None:
                k.free_fd(self.fd)
            k.progress += 1
            if self.client is not None:
                self.client.on_server_close()

    # -- readiness
    def r_ready(self):
        if self.listening:
            return bool(self.backlog)
        return bool(self.inq) or self.in_fin or self.rst

    def w_ready(self):
        if self.listening:
            return False
        return self.rst or (self.sndbuf_cap - self.unread) > 0

    def hup(self):
        return self.rst

    def e_ready(self):
        return self.oob and not self.listening


class Pipe:
    def __init__(self):
        self.data = bytearray()
        self.r_open = 0
        self.w_open = 0
        self.nonblocking = False
        self.max_len = 0


class PipeEnd:
    listening = False

    def __init__(self, pipe, side):
        self.pipe = pipe
        self.side = side

    def r_ready(self):
        p = self.pipe
        return self.side == "r" and (bool(p.data) or p.w_open == 0)

    def w_ready(self):
        return self.side == "w"

    def hup(self):
        return False

    def e_ready(self):
        return False


class OSShim:
    """replaces `os` inside waitress.trigger and waitress.wasyncore."""

    def __init__(self, k):
        self._k = k

    def pipe(self):
        k = self._k
        p = Pipe()
        r = k.alloc_fd(PipeEnd(p, "r"))
        p.r_open += 1
        w = k.alloc_fd(PipeEnd(p, "w"))
        p.w_open += 1
        k.log("pipe", k.fdn(r), k.fdn(w))
        return r, w

    def _get(self, fd, op):
        k = self._k
        obj = k.fds.get(fd)
        if obj is None or not isinstance(obj, PipeEnd):
            k.log("os", op, k.fdn(fd), "EBADF")
            raise OSError(errno.EBADF, "Bad file descriptor")
        return obj

    def dup(self, fd):
        k = self._k
        e = self._get(fd, "dup")
        n = k.alloc_fd(PipeEnd(e.pipe, e.side))
        if e.side == "r":
            e.pipe.r_open += 1
        else:
            e.pipe.w_open += 1
        return n

    def set_blocking(self, fd, flag):
        e = self._get(fd, "set_blocking")
        e.pipe.nonblocking = not flag

    def write(self, fd, data):
        k = self._k
        k.yield_point("os.write")
        e = self._get(fd, "write")
        if e.side != "w":
            raise OSError(errno.EBADF, "Bad file descriptor")
        if e.pipe.r_open == 0:
            raise BrokenPipeError(errno.EPIPE, "Broken pipe")
        e.pipe.data += data
        e.pipe.max_len = max(e.pipe.max_len, len(e.pipe.data))
        k.log("pipe_write", k.fdn(fd), len(data))
        k.progress += 1
        return len(data)

    def read(self, fd, n):
        k = self._k
        k.yield_point("os.read")
        e = self._get(fd, "read")
        if e.side != "r":
            raise OSError(errno.EBADF, "Bad file descriptor")
        p = e.pipe
        if not p.data:
            if p.w_open == 0:
                return b""
            if p.nonblocking:
                raise BlockingIOError(errno.EAGAIN, "Resource temporarily unavailable")
            k.block_until(lambda: bool(p.data) or p.w_open == 0, None, "pipe.read")
        d = bytes(p.data[:n])
        del p.data[:n]
        k.log("pipe_read", k.fdn(fd), len(d))
        k.progress += 1
        return d

    def close(self, fd):
        k = self._k
        if fd < k.fd_base or fd >= k.fd_base + 1_000_000:
            return  # a descriptor of another run (late finaliser): not ours
        if k.current is None and (k.aborting or k.finished):
            k.fds.pop(fd, None)
            return
        k.yield_point("os.close")
        obj = k.fds.get(fd)
        who = k.current.name if k.current else "-"
        if obj is None:
            k.log("os_close", k.fdn(fd), who, "EBADF")
            raise OSError(errno.EBADF, "Bad file descriptor")
        k.log("os_close", k.fdn(fd), who)
        k.free_fd(fd)
        k.progress += 1
        if isinstance(obj, PipeEnd):
            if obj.side == "r":
                obj.pipe.r_open -= 1
            else:
                obj.pipe.w_open -= 1
        elif isinstance(obj, FakeSocket):
            # closing a socket's descriptor number behind its back (fd reuse)
            k.log("os_close_socket", obj.cid)
            obj.closed = True

    def __getattr__(self, name):
        return getattr(_os, name)


# ------------------------------------------------------------------- select
class SimPoll:
    def __init__(self, shim):
        self.shim = shim
        self.reg = {}

    def register(self, fd, flags):
        self.reg[fd] = flags

    def unregister(self, fd):
        del self.reg[fd]

    def modify(self, fd, flags):
        self.reg[fd] = flags

    def _scan(self):
        k = self.shim._k
        out = []
        for fd, flags in self.reg.items():
            obj = k.fds.get(fd)
            if obj is None:
                out.append((fd, _select.POLLNVAL))
                continue
            ev = 0
            if flags & _select.POLLIN and obj.r_ready():
                ev |= _select.POLLIN
            if flags & _select.POLLOUT and obj.w_ready():
                ev |= _select.POLLOUT
            if obj.hup():
                ev |= _select.POLLHUP | _select.POLLERR
            if flags & _select.POLLPRI and obj.e_ready():
                ev |= _select.POLLPRI
            if ev:
                out.append((fd, ev))
        return out

    def poll(self, timeout=None):
        k = self.shim._k
        k.yield_point("poll", SELECT_COST)
        self.shim.calls += 1
        res = self._scan()
        if res:
            k.note_spin(tuple((k.fdn(fd), ev) for fd, ev in res))
            k.log("poll", tuple((k.fdn(fd), ev) for fd, ev in res))
            return res
        if timeout is not None and timeout <= 0 and not self.shim.infinite:
            return []
        deadline = None if (timeout is None or self.shim.infinite) else k.now + timeout / 1000.0
        k.block_until(lambda: bool(self._scan()), deadline, "poll")
        res = self._scan()
        k.log("poll", tuple((k.fdn(fd), ev) for fd, ev in res))
        return res


class SelectShim:
    POLLIN = _select.POLLIN
    POLLPRI = _select.POLLPRI
    POLLOUT = _select.POLLOUT
    POLLERR = _select.POLLERR
    POLLHUP = _select.POLLHUP
    POLLNVAL = _select.POLLNVAL
    error = OSError

    def __init__(self, k, infinite=False):
        self._k = k
        self.infinite = infinite
        self.calls = 0
        self.stale_fd_seen = 0

    def poll(self):
        return SimPoll(self)

    def _scan(self, r, w, e):
        fds = self._k.fds
        rr = [fd for fd in r if fd in fds and fds[fd].r_ready()]
        ww = [fd for fd in w if fd in fds and fds[fd].w_ready()]
        ee = [fd for fd in e if fd in fds and fds[fd].e_ready()]
        return rr, ww, ee

    def select(self, r, w, e, timeout=None):
        k = self._k
        k.yield_point("select", SELECT_COST)
        self.calls += 1
        for fd in list(r) + list(w) + list(e):
            if fd not in k.fds:
                self.stale_fd_seen += 1
                k.log("select_ebadf", k.fdn(fd))
                raise OSError(errno.EBADF, "Bad file descriptor")
        rr, ww, ee = self._scan(r, w, e)
        if rr or ww or ee:
            sig = (tuple(k.fdn(x) for x in rr), tuple(k.fdn(x) for x in ww)) + ((tuple(k.fdn(x) for x in ee),) if ee else ())
            k.note_spin(sig)
            k.log("select", sig)
            return rr, ww, ee
        if timeout is not None and timeout <= 0 and not self.infinite:
            return [], [], []
        deadline = None if (timeout is None or self.infinite) else k.now + timeout
        k.block_until(lambda: any(self._scan(r, w, e)), deadline, "select")
        rr, ww, ee = self._scan(r, w, e)
        k.log("select", (tuple(k.fdn(x) for x in rr), tuple(k.fdn(x) for x in ww)))
        return rr, ww, ee

    def __getattr__(self, name):
        return getattr(_select, name)


# ---------------------------------------------------------------------- map
class RecordingDict(dict):
    """socket map that records which simulated thread mutates it."""

    def __init__(self, k):
        dict.__init__(self)
        self.k = k
        self.mutations = []  # (seq, thread, op, fdn)

    def __setitem__(self, fd, v):
        k = self.k
        who = k.current.name if k.current else "-"
        seq = k.log("map_set", k.fdn(fd), who)
        self.mutations.append((seq, who, "set", k.fdn(fd)))
        dict.__setitem__(self, fd, v)

    def __delitem__(self, fd):
        k = self.k
        who = k.current.name if k.current else "-"
        seq = k.log("map_del", k.fdn(fd), who)
        self.mutations.append((seq, who, "del", k.fdn(fd)))
        dict.__delitem__(self, fd)

    def clear(self):
        k = self.k
        who = k.current.name if k.current else "-"
        self.mutations.append((k.seq, who, "clear", None))
        dict.clear(self)
