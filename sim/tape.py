"""Tapes: every nondeterministic choice of a simulated run is one integer draw.

A tape is either *recording* (draws come from a random.Random seeded from
(VERIF_SEED, property, run index, tape name)) or *replaying* (draws come from
a recorded list; when the list runs out every draw is 0).  By construction the
value 0 is the simplest choice on every tape, so a shrinker can truncate and
zero a tape without knowing what the draws mean.
"""
import hashlib
import random


def seed_for(*parts):
    h = hashlib.sha256("/".join(str(p) for p in parts).encode()).digest()
    return int.from_bytes(h[:8], "big")


class Tape:
    __slots__ = ("name", "rng", "replay", "pos", "rec", "limit")

    def __init__(self, name, seed=None, replay=None, limit=200000):
        self.name = name
        self.replay = list(replay) if replay is not None else None
        self.rng = random.Random(seed) if replay is None else None
        self.pos = 0
        self.rec = []
        self.limit = limit

    # -- core ---------------------------------------------------------------
    def draw(self, n, p0=None):
        """integer in [0, n).  p0: probability of the value 0 when recording
        (default uniform).  n <= 1 is not a choice and is not recorded."""
        if n <= 1:
            return 0
        if self.replay is not None:
            if self.pos < len(self.replay):
                v = self.replay[self.pos] % n
            else:
                v = 0
            self.pos += 1
        else:
            if p0 is not None:
                if self.rng.random() < p0:
                    v = 0
                else:
                    v = 1 + self.rng.randrange(n - 1)
            else:
                v = self.rng.randrange(n)
        if len(self.rec) < self.limit:
            self.rec.append(v)
        return v

    def raw(self, gen):
        """unbounded non-negative integer; gen(rng) produces it when recording.
        0 must be the simplest value."""
        if self.replay is not None:
            v = self.replay[self.pos] if self.pos < len(self.replay) else 0
            self.pos += 1
        else:
            v = int(gen(self.rng))
        if v < 0:
            v = 0
        if len(self.rec) < self.limit:
            self.rec.append(v)
        return v

    # -- conveniences -------------------------------------------------------
    def chance(self, p):
        """True with probability p (False is the simple value)."""
        return self.draw(2, p0=1.0 - p) == 1

    def choice(self, seq, p0=None):
        return seq[self.draw(len(seq), p0)]

    def int_between(self, lo, hi):
        return lo + self.draw(hi - lo + 1)

    def gap(self, mean):
        """number of yield points until the next forced switch; 0 = never."""
        return self.raw(lambda r: 1 + int(r.expovariate(1.0 / mean)))

    def weighted(self, weights):
        """index drawn with the given weights; index 0 is the simple value."""
        n = len(weights)
        if n <= 1:
            return 0
        if self.replay is not None:
            return self.draw(n)
        tot = float(sum(weights))
        x = self.rng.random() * tot
        acc = 0.0
        v = n - 1
        for i, w in enumerate(weights):
            acc += w
            if x < acc:
                v = i
                break
        if len(self.rec) < self.limit:
            self.rec.append(v)
        return v


class Tapes:
    """The three tapes of a run: W workload, F faults/network, S scheduler."""

    def __init__(self, verif_seed=0, prop="", run_index=0, replay=None):
        self.verif_seed = verif_seed
        self.prop = prop
        self.run_index = run_index
        if replay is None:
            mk = lambda n: Tape(n, seed=seed_for(verif_seed, prop, run_index, n))
        else:
            mk = lambda n: Tape(n, replay=replay.get(n, []))
        self.W = mk("W")
        self.F = mk("F")
        self.S = mk("S")

    def recorded(self):
        return {"W": list(self.W.rec), "F": list(self.F.rec), "S": list(self.S.rec)}
