#!/bin/sh
# usage: sim/validate_seed.sh /tmp/wt-C13 <mutant-name>
# confirms in the scratch worktree: patch applies, full suite passes with it, demo FAILs with it and PASSes without it
WT="$1"; NAME="$2"; M="$WT/mutants/$NAME"
cd "$WT" || exit 2
git checkout -q -- src || exit 2
git apply "$M/patch.diff" || { echo "APPLY-FAILED"; exit 2; }
echo "files: $(git diff --stat | tail -1)"
SUITE=$(PYTHONPATH=src timeout 900 /venv/bin/python -m pytest -q -p no:cacheprovider --no-cov 2>&1 | tail -1)
echo "suite with patch: $SUITE"
PYTHONPATH=src timeout 120 /venv/bin/python "$M/demo.py" > /tmp/demo_with.out 2>&1; RC1=$?
echo "demo with patch: rc=$RC1 $(tail -1 /tmp/demo_with.out | cut -c1-160)"
git checkout -q -- src
PYTHONPATH=src timeout 120 /venv/bin/python "$M/demo.py" > /tmp/demo_without.out 2>&1; RC0=$?
echo "demo without patch: rc=$RC0 $(tail -1 /tmp/demo_without.out | cut -c1-160)"
case "$SUITE" in *"795 passed"*) S=ok;; *) S=bad;; esac
if [ "$S" = ok ] && [ "$RC1" != 0 ] && [ "$RC0" = 0 ]; then echo "VALID"; else echo "INVALID"; fi
