#!/venv/bin/python
"""machinery self-check: the byte position at which C06 says a limit is crossed must be the position at which the
real parser, fed one byte at a time, completes the message with an error.  usage: sim/selfcheck_c06.py"""
import collections
import os
import sys

HERE = os.path.dirname(os.path.dirname(os.path.abspath(__file__)))
sys.path.insert(0, HERE)
sys.path.insert(0, os.path.join(os.environ.get("VERIF_REPO", "/repo"), "src"))
from props import c06  # noqa: E402
from waitress.adjustments import Adjustments  # noqa: E402
from waitress.parser import HTTPRequestParser  # noqa: E402

bad = collections.Counter()
ok = collections.Counter()
for shape in c06.SHAPES:
    if shape in ("mutated_message", "garbage"):
        continue
    for H in [262144, 16, 64, 100, 500, 4096]:
        for B in [1073741824, 8, 100, 1000, 70000]:
            for d in [0, -2, -1, 1, 2]:
                for seed in range(8):
                    sc = dict(shape=shape, max_header=H, max_body=B, recv_bytes=1, d=d, follower=False, inbuf_overflow=524288,
                              cut=0, extra_after=0, seed=seed, threads=1)
                    stream, exp = c06.build(sc)[:2]
                    cp = exp.get("cross_pos")
                    if cp is None:
                        continue
                    p = HTTPRequestParser(Adjustments(max_request_header_size=sc["max_header"], max_request_body_size=sc["max_body"]))
                    at = None
                    for i in range(len(stream)):
                        p.received(stream[i:i + 1])
                        if p.completed:
                            at = i + 1
                            break
                    if at is None or p.error is None:
                        bad[(shape, "no-error")] += 1
                    elif at != cp:
                        bad[(shape, "off by", at - cp)] += 1
                    else:
                        ok[shape] += 1
print("agree:", dict(ok))
print("disagree:", dict(bad))
sys.exit(1 if bad else 0)
