#!/venv/bin/python
"""entry point: /verif/check <Cxx> [--tier quick|thorough] [--replay file]"""
import os
import sys

if os.environ.get("PYTHONHASHSEED") is None:
    os.environ["PYTHONHASHSEED"] = "0"
    os.execv(sys.executable, [sys.executable] + sys.argv)

HERE = os.path.dirname(os.path.dirname(os.path.abspath(__file__)))
# the simulator always runs the current working tree of /repo (VERIF_REPO is only for evaluating a
# seeded change in a scratch worktree without touching /repo; the registered commands never set it)
REPO = os.path.realpath(os.environ.get("VERIF_REPO", "/repo"))
os.environ["VERIF_REPO"] = REPO
sys.path[:] = [p for p in sys.path if os.path.abspath(p or ".") != os.path.join(HERE, "sim")]
sys.path.insert(0, HERE)
sys.path.insert(0, os.path.join(REPO, "src"))
sys.dont_write_bytecode = True
os.environ.setdefault("WAITRESS_VERIF_SIM", "1")

from sim.runner import main  # noqa: E402

if __name__ == "__main__":
    sys.exit(main())
