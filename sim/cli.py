#!/venv/bin/python
"""entry point: /verif/check <Cxx> [--tier quick|thorough] [--replay file]"""
import os
import sys

if os.environ.get("PYTHONHASHSEED") is None:
    os.environ["PYTHONHASHSEED"] = "0"
    os.execv(sys.executable, [sys.executable] + (["-O"] if sys.flags.optimize else []) + sys.argv)


def _replay_wants_optimize(argv):
    """a replay file recorded under python -O (assert statements of the code under test stripped) is replayed so"""
    if "--replay" in argv and not sys.flags.optimize:
        try:
            import json
            with open(argv[argv.index("--replay") + 1]) as f:
                return bool(json.load(f).get("python_optimize"))
        except Exception:
            return False
    return False


if _replay_wants_optimize(sys.argv):
    os.execv(sys.executable, [sys.executable, "-O"] + sys.argv)

HERE = os.path.dirname(os.path.dirname(os.path.abspath(__file__)))
# the simulator always runs the current working tree of /repo (VERIF_REPO is only for evaluating a
# seeded change in a scratch worktree without touching /repo; the registered commands never set it)
REPO = os.path.realpath(os.environ.get("VERIF_REPO", "/repo"))
os.environ["VERIF_REPO"] = REPO
sys.path[:] = [p for p in sys.path if os.path.abspath(p or ".") != os.path.join(HERE, "sim")]
sys.path.insert(0, HERE)
sys.path.insert(0, os.path.join(REPO, "src"))
sys.dont_write_bytecode = True
os.environ.setdefault("WAITRESS_VERIF_SIM", "1")

from sim.runner import main  # noqa: E402

# properties whose checks are repeated, for a quarter of the time, with the code under test compiled by python -O:
# validation written as `assert` statements vanishes there (waitress spells its checks `raise AssertionError`)
OPTIMIZED_PASS = {"C08"}


def _optimized_pass(argv):
    import subprocess
    prop = next((a.upper() for a in argv[1:] if not a.startswith("-")), "")
    if prop not in OPTIMIZED_PASS or sys.flags.optimize or "--replay" in argv or "--selftest-child" in argv \
            or os.environ.get("VERIF_NO_OPTIMIZED_PASS"):
        return 0
    tier = argv[argv.index("--tier") + 1] if "--tier" in argv and argv.index("--tier") + 1 < len(argv) else "quick"
    budget = None
    if "--budget" in argv:
        try:
            budget = float(argv[argv.index("--budget") + 1])
        except Exception:
            budget = None
    if budget is None:
        budget = 30.0 if tier != "thorough" else 600.0
    cmd = [sys.executable, "-O", os.path.abspath(__file__), prop, "--tier", tier, "--budget", "%.1f" % max(5.0, budget / 4),
           "--no-selftest", "--no-evidence"]
    print("-- optimized pass (python -O): %s" % " ".join(cmd[2:]), flush=True)
    out = subprocess.run(cmd, env=dict(os.environ))
    return out.returncode


if __name__ == "__main__":
    rc = main()
    if rc == 0:
        rc = _optimized_pass(sys.argv)
    sys.exit(rc)
