"""Deterministic kernel: baton-passing real threads, discrete-event clock.

Exactly one simulated thread runs at any instant.  A thread gives up the baton
only at a *yield point* (a call into one of the shims, or - with line
pre-emption on - a source line of the traced waitress files).  Who runs next is
decided by the S tape.  Client behaviour and network delivery are events in a
priority queue ordered by (simulated time, sequence number), executed by
whichever thread happens to be inside the scheduler when they fall due.
"""
import gc
import hashlib
import heapq
import sys
import threading as _real_threading

BASE_TIME = 1_700_000_000.0

YIELD_COST = 1e-6
SELECT_COST = 50e-6


WATCHDOG = [0]  # wall seconds per simulated run; set by the runner


class SimAbort(SystemExit):
    """Raised inside simulated threads when the run is being torn down.
    A SystemExit subclass, so wasyncore re-raises it by design."""


class HarnessError(Exception):
    """The simulator itself went wrong (never a verdict about waitress)."""


class SimThread:
    __slots__ = (
        "kernel", "name", "target", "args", "sem", "alive", "started", "real",
        "blocked", "last_run", "exc", "no_preempt", "kind", "site", "finished_ok", "prio",
    )

    def __init__(self, kernel, name, target, args=(), kind="worker"):
        self.kernel = kernel
        self.name = name
        self.target = target
        self.args = args
        self.kind = kind
        self.sem = _real_threading.Semaphore(0)
        self.alive = True
        self.started = False
        self.blocked = None  # (pred, deadline, what, active)
        self.last_run = 0
        self.exc = None
        self.no_preempt = 0
        self.site = ""
        self.finished_ok = False
        self.prio = 0
        self.real = _real_threading.Thread(target=self._boot, name="sim-" + name, daemon=True)

    def _boot(self):
        k = self.kernel
        self.sem.acquire()
        if k.aborting:
            self.alive = False
            k.driver_sem.release()
            return
        self.started = True
        if k.trace_files:
            sys.settrace(k._global_trace)
        try:
            self.target(*self.args)
            self.finished_ok = True
        except SimAbort:
            pass
        except BaseException as e:  # noqa
            self.exc = e
            k.log("thread_died", self.name, type(e).__name__, str(e)[:200])
        finally:
            sys.settrace(None)
            self.alive = False
            if k.aborting:
                k.driver_sem.release()
            else:
                k.log("thread_exit", self.name)
                k._thread_exit(self)


class Kernel:
    def __init__(self, tapes, sched=None, step_cap=200000, horizon=3600.0,
                 stop_at_idle=True, trace_files=(), generation=1):
        self.tapes = tapes
        self.S = tapes.S
        self.now = BASE_TIME
        self.t0 = BASE_TIME
        self.threads = []
        self.current = None
        self.events = []
        self.seq = 0
        self.history = []
        self.keep_times = False
        self.time_of = {}
        self.aborting = False
        self.finished = False
        self.end_reason = None
        self.steps = 0
        self.step_cap = step_cap
        self.horizon = horizon
        self.stop_at_idle = stop_at_idle
        self.driver_sem = _real_threading.Semaphore(0)
        self.driver_thread = _real_threading.current_thread()
        self.on_idle = None  # callable(kernel, quiescent: bool) -> True if it injected work
        self.on_all_blocked = None  # invariant hook: called whenever no thread is runnable
        self.on_finish = None  # snapshot hook, called once when the run ends (state still intact)
        self.on_step = None  # invariant hook, called after each executed event / switch
        self.progress = 0  # bumped by anything that is real progress (bytes, app steps)
        self.switches = 0
        self.switch_hash = hashlib.sha256()
        self.generation = generation
        self.fd_base = generation * 1_000_000
        self.fds = {}
        self.harness_error = None
        # scheduler configuration
        sched = sched or {}
        self.sched_kind = sched.get("kind", "rtb")  # rtb | walk | delay
        self.gap_mean = sched.get("gap_mean", 50)
        self.trace_files = frozenset(trace_files)
        self.trace_opcodes = sched.get("opcodes", False)
        # "hot" source file: its lines count hot_weight times towards the next pre-emption, so that the short
        # critical sections of one module are cut open far more often than the rest of the code
        hot = sched.get("hot")
        self.hot_files = frozenset(f for f in self.trace_files if hot and f.endswith("/" + hot))
        self.hot_weight = int(sched.get("hot_weight", 8))
        # the instant right after a lock is released counts release_weight times towards the next pre-emption
        self.release_weight = 5 if sched.get("release_bias") else 1
        self.handoff = bool(sched.get("handoff"))  # on lock release prefer a thread that was waiting for that lock
        self.delay_enabled = bool(sched.get("delay"))
        self.delay_target = None  # thread kind currently starved
        self.delay_left = 0
        self.gap = 0
        self.slice = 0
        self.slice_max = sched.get("slice", 150)
        if self.sched_kind == "walk":
            self.gap = self.S.gap(self.gap_mean)
        # PCT: random thread priorities, highest runnable runs; d priority-drop points
        self.pct_clock = 0
        self.pct_points = []
        self.pct_low = 0
        if self.sched_kind == "pct":
            n = max(10, int(sched.get("pct_len", 2000)))
            d = int(sched.get("pct_d", 2))
            self.pct_points = sorted(self.S.raw(lambda r, n=n: 1 + r.randrange(n)) for _ in range(d))
            self.pct_points = [x for x in self.pct_points if x > 0]
        # livelock detection
        self.spin_count = 0
        self.spin_progress = -1
        self.spin_limit = 300
        self.spin_hops = 0
        self.livelock = False
        self.abstract_states = set()
        self.idle_states = 0
        self.quiescent_states = 0
        self.probes = {}
        self.final_threads = []
        self.end_time = self.now

    # ------------------------------------------------------------------ log
    def log(self, kind, *details):
        self.seq += 1
        cur = self.current.name if self.current is not None else "-"
        self.history.append((self.seq, cur, kind) + details)
        if self.keep_times:
            self.time_of[self.seq] = self.now
        return self.seq

    def probe(self, name, n=1):
        self.probes[name] = self.probes.get(name, 0) + n

    def digest(self):
        h = hashlib.sha256()
        for ev in self.history:
            h.update(repr(ev).encode("utf-8", "backslashreplace"))
            h.update(b"\n")
        return h.hexdigest()

    # --------------------------------------------------------------- events
    def at(self, when, fn, label=""):
        self.seq += 1
        heapq.heappush(self.events, (when, self.seq, fn, label))

    def after(self, delay, fn, label=""):
        self.at(self.now + delay, fn, label)

    def _run_due_events(self):
        ev = self.events
        ran = False
        while ev and ev[0][0] <= self.now:
            _, _, fn, label = heapq.heappop(ev)
            cur = self.current
            if cur is not None:
                cur.no_preempt += 1
            try:
                fn()
            finally:
                if cur is not None:
                    cur.no_preempt -= 1
            ran = True
            self.progress += 1
            if self.on_step is not None:
                self.on_step(self)
        return ran

    # -------------------------------------------------------------- threads
    def spawn(self, name, target, args=(), kind="worker"):
        t = SimThread(self, name, target, args, kind)
        if self.sched_kind == "pct":
            t.prio = 1000 + self.S.draw(1000)
        self.threads.append(t)
        t.real.start()
        self.log("spawn", name)
        return t

    def _is_runnable(self, t):
        if not t.alive:
            return False
        b = t.blocked
        if b is None:
            return True
        pred, deadline = b[0], b[1]
        if deadline is not None and deadline <= self.now:
            return True
        return pred is not None and pred()

    def _runnable(self):
        return [t for t in self.threads if self._is_runnable(t)]

    def _next_deadline(self, active_only=False):
        nxt = None
        if self.events:
            nxt = self.events[0][0]
        for t in self.threads:
            if t.alive and t.blocked is not None:
                d = t.blocked[1]
                if active_only and not t.blocked[3]:
                    continue
                if d is not None and (nxt is None or d < nxt):
                    nxt = d
        return nxt

    def _pick(self, cands, me, forced):
        """choose the next thread among runnable candidates."""
        if len(cands) == 1:
            return cands[0]
        # deterministic order: longest-waiting first
        cands = sorted(cands, key=lambda t: t.last_run)
        if self.delay_left > 0 and self.delay_target:
            pref = [t for t in cands if t.kind != self.delay_target]
            if pref:
                self.delay_left -= 1
                cands = pref
                if len(cands) == 1:
                    return cands[0]
        if self.sched_kind == "rtb":
            return cands[0]
        if self.sched_kind == "pct":
            return max(cands, key=lambda t: t.prio)
        return cands[self.S.draw(len(cands))]

    def _idle_or_advance(self):
        """no thread is runnable: advance the clock, or declare idle/quiescent.
        returns True if the caller should re-evaluate, False if the run ended."""
        nxt_ev = self._next_deadline(active_only=True)
        nxt = self._next_deadline()
        if self.on_all_blocked is not None and not self.finished:
            # every thread is blocked right now (the clock is about to jump or the run to end)
            self.on_all_blocked(self)
        if nxt_ev is None:
            # nothing but (possibly) timer deadlines of blocked threads
            quiescent = nxt is None
            if quiescent:
                self.quiescent_states += 1
            else:
                self.idle_states += 1
            verdict = None
            if self.on_idle is not None:
                cur = self.current
                if cur is not None:
                    cur.no_preempt += 1
                try:
                    verdict = self.on_idle(self, quiescent)
                finally:
                    if cur is not None:
                        cur.no_preempt -= 1
                if verdict == "injected":
                    return True
            if quiescent:
                self._finish("quiescent")
                return False
            if verdict == "stop" or (verdict is None and self.stop_at_idle):
                self._finish("idle")
                return False
        if nxt is None:
            self._finish("quiescent")
            return False
        if nxt - self.t0 > self.horizon:
            self._finish("horizon")
            return False
        if nxt > self.now:
            self.now = nxt
        return True

    def stop(self, reason):
        """end the run at the next yield point (used by invariant hooks)."""
        self._finish(reason)

    def _finish(self, reason):
        if not self.finished:
            self.finished = True
            self.end_reason = reason
            self.end_time = self.now
            self.final_threads = [
                (t.name, t.kind, t.alive, type(t.exc).__name__ if t.exc else None,
                 t.blocked[2] if (t.blocked is not None and t is not self.current) or
                 (t.blocked is not None and not self._is_runnable(t)) else None)
                for t in self.threads
            ]
            self.log("end", reason)
            if self.on_finish is not None:
                try:
                    self.on_finish(self)
                except Exception as e:  # noqa
                    self.harness_error = "on_finish hook failed: %r" % (e,)

    def _handoff(self, me, nxt):
        self.switches += 1
        self.slice = 0
        self.switch_hash.update(("%s>%s@%s;" % (me.name if me else "-", nxt.name, me.site if me else "")).encode())
        nxt.blocked = None
        nxt.last_run = self.seq
        self.current = nxt
        nxt.sem.release()

    def _reschedule(self, me, can_stay):
        """called by the baton holder `me`.  Returns when `me` holds the baton
        again (possibly immediately)."""
        while True:
            if self.finished:
                self._park_until_abort(me)
            self._run_due_events()
            cands = self._runnable()
            if not can_stay:
                # me is blocked: it is in cands only if its predicate already holds
                pass
            if not cands:
                if not self._idle_or_advance():
                    self._park_until_abort(me)
                continue
            nxt = self._pick(cands, me, not can_stay)
            if nxt is me:
                me.blocked = None
                me.last_run = self.seq
                return
            self._handoff(me, nxt)
            me.sem.acquire()
            if self.aborting:
                raise SimAbort()
            return

    def _park_until_abort(self, me):
        self.current = None
        self.driver_sem.release()
        me.sem.acquire()
        raise SimAbort()

    def _thread_exit(self, me):
        while True:
            if self.finished:
                self.current = None
                self.driver_sem.release()
                return
            self._run_due_events()
            cands = self._runnable()
            if not cands:
                if not self._idle_or_advance():
                    self.current = None
                    self.driver_sem.release()
                    return
                continue
            nxt = self._pick(cands, me, True)
            self._handoff(me, nxt)
            return

    # ---------------------------------------------------------- yield points
    def yield_point(self, site, cost=YIELD_COST, weight=1):
        if self.aborting:
            if _real_threading.current_thread() is self.driver_thread:
                return
            raise SimAbort()
        me = self.current
        if me is None:
            return  # set-up phase on the driver thread
        if me.no_preempt:
            return
        self.steps += 1
        self.now += cost
        if self.steps > self.step_cap:
            self._finish("step_cap")
        if self.finished:
            self._park_until_abort(me)
        me.site = site
        switch = False
        fair = False
        if self.gap > 0:
            self.gap -= weight
            if self.gap <= 0:
                switch = True
                self.gap = self.S.gap(self.gap_mean)
        if self.pct_points:
            self.pct_clock += 1
            if self.pct_clock >= self.pct_points[0]:
                self.pct_points.pop(0)
                self.pct_low -= 1
                me.prio = self.pct_low
        if self.sched_kind == "pct":
            best = me
            for t in self.threads:
                if t is not me and t.prio > best.prio and self._is_runnable(t):
                    best = t
            if best is not me:
                if self.events and self.events[0][0] <= self.now:
                    self._run_due_events()
                me.blocked = None
                self._handoff(me, best)
                me.sem.acquire()
                if self.aborting:
                    raise SimAbort()
                return
        self.slice += 1
        if self.slice >= self.slice_max and not switch:
            # time slice used up: a pre-emptive OS would run somebody else now
            switch = fair = True
        if self.events and self.events[0][0] <= self.now:
            self._run_due_events()
        if switch:
            others = [t for t in self.threads if t is not me and self._is_runnable(t)]
            if others:
                me.blocked = None
                others.sort(key=lambda t: t.last_run)
                if fair or len(others) == 1:
                    nxt = others[0]
                else:
                    nxt = others[self.S.draw(len(others))]
                self._handoff(me, nxt)
                me.sem.acquire()
                if self.aborting:
                    raise SimAbort()

    def line_point(self, weight=1):
        """pre-emption opportunity at a traced source line (no time cost)."""
        me = self.current
        if me is None or me.no_preempt or self.aborting or self.finished:
            return
        if self.pct_points:
            self.pct_clock += weight
            if self.pct_clock >= self.pct_points[0]:
                self.pct_points.pop(0)
                self.pct_low -= 1
                me.prio = self.pct_low
                best = None
                for t in self.threads:
                    if t is not me and self._is_runnable(t) and (best is None or t.prio > best.prio):
                        best = t
                if best is not None and best.prio > me.prio:
                    self.steps += 1
                    me.site = "line"
                    self._handoff(me, best)
                    me.sem.acquire()
                    if self.aborting:
                        raise SimAbort()
            return
        if self.gap > 0:
            self.gap -= weight
            if self.gap <= 0:
                self.gap = self.S.gap(self.gap_mean)
                others = [t for t in self.threads if t is not me and self._is_runnable(t)]
                if others:
                    self.steps += 1
                    me.site = "line"
                    others.sort(key=lambda t: t.last_run)
                    nxt = others[self.S.draw(len(others))] if len(others) > 1 else others[0]
                    self._handoff(me, nxt)
                    me.sem.acquire()
                    if self.aborting:
                        raise SimAbort()

    def block_until(self, pred, deadline=None, what="", active=False):
        """park the current thread until pred() holds or the simulated clock
        reaches deadline.  Returns True if pred holds on wake-up."""
        if self.aborting:
            raise SimAbort()
        me = self.current
        if me is None:
            raise HarnessError("block_until outside a simulated thread: %s" % what)
        self.steps += 1
        if self.steps > self.step_cap:
            self._finish("step_cap")
        me.site = what
        me.blocked = (pred, deadline, what, active)
        self._reschedule(me, can_stay=False)
        return pred() if pred is not None else False

    def release_point(self, lockname):
        """yield point at a lock release; with the hand-off bias the baton goes to a waiter of that lock."""
        me = self.current
        if me is None or self.aborting or me.no_preempt or not self.handoff:
            return self.yield_point("release:" + lockname, weight=self.release_weight)
        waiters = [t for t in self.threads if t is not me and t.alive and t.blocked is not None
                   and t.blocked[2] in ("lock:" + lockname, "relock:" + lockname) and self._is_runnable(t)]
        if not waiters or self.S.draw(2, p0=0.5) == 0:
            return self.yield_point("release:" + lockname, weight=self.release_weight)
        self.steps += 1
        self.now += YIELD_COST
        me.site = "release:" + lockname
        me.blocked = None
        waiters.sort(key=lambda t: t.last_run)
        self._handoff(me, waiters[0])
        me.sem.acquire()
        if self.aborting:
            raise SimAbort()

    def starve(self, kind, steps):
        """targeted delay: prefer threads other than `kind` for `steps` picks."""
        if self.delay_enabled:
            self.delay_target = kind
            self.delay_left = steps

    def note_spin(self, signature):
        """called by select when it returns immediately; detects livelock."""
        if self.progress == self.spin_progress and signature == getattr(self, "_spin_sig", None):
            self.spin_count += 1
            if self.sched_kind == "pct" and self.spin_count >= 3 and self.current is not None:
                # a spinning thread must not starve lower-priority threads (PCT treats a
                # busy-wait iteration as a yield: the spinner drops to the lowest priority)
                self.pct_low -= 1
                self.current.prio = self.pct_low
            if self.spin_count >= self.spin_limit:
                # only a livelock if nobody else can run and no event is pending
                others = [t for t in self.threads if t is not self.current and self._is_runnable(t)]
                nxt = self._next_deadline(active_only=True)
                if not others and nxt is None:
                    self.livelock = True
                    self.log("livelock", signature)
                    self._finish("livelock")
                elif not others:
                    # a busy-wait: the loop keeps getting the same answer from select at once, nothing else can run
                    # and nothing changes until the next timed event.  On a real machine that burns wall-clock time;
                    # here the clock is moved on (in growing, bounded hops, never past the next timed event) so that
                    # timeouts inside and around the spinning loop still come due within the step bound.
                    hop = min(0.25 * (2 ** min(self.spin_hops, 4)), 4.0)
                    self.spin_hops += 1
                    self.now = max(self.now, min(nxt, self.now + hop))
                    self.probe("spin_fast_forward")
                    self.spin_count = 0
                    if self.now - self.t0 > self.horizon:
                        self._finish("horizon")
                else:
                    self.spin_count = 0
        else:
            self.spin_count = 0
            self.spin_hops = 0
            self.spin_progress = self.progress
            self._spin_sig = signature

    # ------------------------------------------------------------- tracing
    def _global_trace(self, frame, event, arg):
        code = frame.f_code
        if code.co_filename in self.trace_files and code.co_name != "__del__":
            if self.trace_opcodes:
                frame.f_trace_opcodes = True
            if code.co_filename in self.hot_files:
                return self._local_trace_hot
            return self._local_trace
        return None

    def _local_trace_hot(self, frame, event, arg):
        if event == "line":
            self.line_point(self.hot_weight)
        return self._local_trace_hot

    def _local_trace(self, frame, event, arg):
        if event == "line" or event == "opcode":
            self.line_point()
        return self._local_trace

    # ------------------------------------------------------------------ run
    def run(self):
        """driver: give the baton to the first runnable thread, wait for the
        end of the run, then tear every thread down."""
        if WATCHDOG[0]:
            # (re-)arm the wall-clock watchdog per simulated run: families that enumerate many sub-runs inside
            # one evaluation would otherwise trip a per-evaluation timer on a loaded machine
            import faulthandler
            faulthandler.dump_traceback_later(WATCHDOG[0], exit=True)
        gc.disable()
        try:
            cands = self._runnable()
            if cands:
                first = self._pick(cands, None, True)
                self._handoff(None, first)
                self.driver_sem.acquire()
            else:
                self._finish("nothing_to_run")
        finally:
            self.aborting = True
            self.current = None
            for t in self.threads:
                if t.alive:
                    t.sem.release()
                    self.driver_sem.acquire()
            for t in self.threads:
                t.real.join(5.0)
                if t.real.is_alive():
                    self.harness_error = "thread %s did not terminate" % t.name
            gc.enable()
        return self.end_reason

    # ------------------------------------------------------------ fd table
    def alloc_fd(self, obj):
        n = 3
        base = self.fd_base
        while (base + n) in self.fds:
            n += 1
        fd = base + n
        self.fds[fd] = obj
        return fd

    def free_fd(self, fd):
        return self.fds.pop(fd, None)

    def fdn(self, fd):
        """small number for logs"""
        return fd - self.fd_base if fd is not None and fd >= self.fd_base else fd
