#!/venv/bin/python
"""survey helper: run N indices of a property in parallel and tabulate violation signatures.
usage: sim/survey.py C09 200 [--tier quick]"""
import os, sys, json, collections
if os.environ.get("PYTHONHASHSEED") is None:
    os.environ["PYTHONHASHSEED"] = "0"
    os.execv(sys.executable, [sys.executable] + sys.argv)
HERE = os.path.dirname(os.path.dirname(os.path.abspath(__file__)))
sys.path[:] = [p for p in sys.path if os.path.abspath(p or ".") != os.path.join(HERE, "sim")]
sys.path.insert(0, HERE); sys.path.insert(0, os.path.join(os.environ.get("VERIF_REPO", "/repo"), "src"))
sys.dont_write_bytecode = True
import concurrent.futures as cf, multiprocessing as mp
from sim import runner

def work(args):
    prop, lo, hi, step = args
    mod = runner.load_prop(prop)
    out = collections.Counter(); ex = {}
    herr = []
    for i in range(lo, hi, step):
        try:
            res, rec = runner.run_once(mod, "quick", int(os.environ.get("VERIF_SEED", "0")), i)
        except Exception as e:
            herr.append((i, repr(e))); continue
        if res.harness_error: herr.append((i, res.harness_error))
        for v in res.violations:
            s = v.sig(prop)
            out[s] += 1
            ex.setdefault(s, (i, v.msg[:700]))
    return out, ex, herr

if __name__ == "__main__":
    prop = sys.argv[1].upper(); n = int(sys.argv[2])
    P = 16
    with cf.ProcessPoolExecutor(P, mp_context=mp.get_context("fork")) as ex:
        rs = list(ex.map(work, [(prop, w, n, P) for w in range(P)]))
    tot = collections.Counter(); exs = {}; herrs = []
    for o, e, h in rs:
        tot.update(o); herrs += h
        for k, v in e.items(): exs.setdefault(k, v)
    for s, c in sorted(tot.items()):
        print("%6d  %s\n          e.g. run %d: %s" % (c, s, exs[s][0], exs[s][1].replace("\n", "\n          ")))
    print("harness errors:", herrs[:5])
