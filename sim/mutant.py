#!/venv/bin/python
"""apply a seeded change to /repo, run some checks against it, and ALWAYS undo it.
usage: sim/mutant.py <patch.diff> C04 [C13 ...] [--budget 20] [--tier quick]
prints, per check, whether it raised a VIOLATION (caught) or not (missed)."""
import argparse
import os
import subprocess
import sys

HERE = os.path.dirname(os.path.dirname(os.path.abspath(__file__)))


def main():
    ap = argparse.ArgumentParser()
    ap.add_argument("patch")
    ap.add_argument("props", nargs="+")
    ap.add_argument("--budget", type=float, default=20)
    ap.add_argument("--tier", default="quick")
    ap.add_argument("--seed", default="0")
    ap.add_argument("--worktree", default="/repo", help="apply and run in this scratch worktree of /repo instead (VERIF_REPO)")
    a = ap.parse_args()
    repo = os.path.realpath(a.worktree)
    st = subprocess.run(["git", "-C", repo, "status", "--porcelain"], capture_output=True, text=True).stdout.strip()
    if st:
        print("refusing: %s has uncommitted changes:\n%s" % (repo, st))
        return 2
    r = subprocess.run(["git", "-C", repo, "apply", os.path.abspath(a.patch)], capture_output=True, text=True)
    if r.returncode != 0:
        print("patch does not apply: " + r.stderr)
        return 2
    results = {}
    try:
        for p in a.props:
            env = dict(os.environ, VERIF_SEED=a.seed, VERIF_REPO=repo)
            out = subprocess.run([os.path.join(HERE, "check"), p, "--tier", a.tier, "--no-selftest", "--no-evidence"]
                                 + (["--budget", str(a.budget)] if a.budget > 0 else []),
                                 capture_output=True, text=True, env=env, timeout=3600)
            viol = [l for l in out.stdout.splitlines() if l.startswith("violation:")]
            tail = out.stdout.strip().splitlines()[-1] if out.stdout.strip() else ""
            results[p] = (out.returncode, viol, tail)
            print("%s: rc=%d %s" % (p, out.returncode, "CAUGHT" if out.returncode == 1 else ("MISSED" if out.returncode == 0 else "HARNESS-ERROR")))
            for v in viol[:6]:
                print("    " + v[:200])
            if out.returncode not in (0, 1):
                print("    " + "\n    ".join(out.stdout.strip().splitlines()[-6:]))
            print("    " + tail)
    finally:
        subprocess.run(["git", "-C", repo, "checkout", "--", "."], check=True)
        st = subprocess.run(["git", "-C", repo, "status", "--porcelain"], capture_output=True, text=True).stdout.strip()
        if st:
            print("WARNING: %s not clean after undo:\n%s" % (repo, st))
    return 0


if __name__ == "__main__":
    sys.exit(main())
